package main

import (
	"fmt"
	"go/token"
	"go/types"
	"sort"
	"strings"

	"golang.org/x/tools/go/ssa"
)

// recursionExceptions: recursive cycles whose depth is bounded by something the depth guard bounds.
var recursionExceptions = map[string]string{
	"object: Delete": "walks the chain of enclosing environments, whose length is the call depth bounded by the depth guard",
	"object: Len":    "walks the chain of enclosing environments, whose length is the call depth bounded by the depth guard",
}

func sccKey(comp []*ssa.Function) string {
	seen := map[string]bool{}
	var names []string
	pk := ""
	for _, f := range comp {
		n := f.Name()
		if f.Pkg != nil {
			pk = shortPkg(f.Pkg.Pkg)
		} else if obj := f.Object(); obj != nil && obj.Pkg() != nil {
			pk = shortPkg(obj.Pkg())
		}
		if !seen[n] {
			seen[n] = true
			names = append(names, n)
		}
	}
	sort.Strings(names)
	// a cycle that contains one of the long-standing recursive walkers is named after it: a helper joining
	// (or leaving) that cycle does not make it another finding; any other cycle is named by all its members
	for _, a := range sccAnchors {
		if seen[a] {
			return pk + ": cycle through " + a
		}
	}
	return pk + ": " + strings.Join(names, ",")
}

var sccAnchors = []string{"evalInternal", "parseExpression", "parseIfExpression", "PrettyPrint", "Modify", "Cmp", "Hashable", "Inspect", "JSON", "Unwrap"}

func runC09(c *Ctx, r *Report) {
	r.Rule("C09.R1", "deadline: the context test is the first effect of evalInternal (no evaluation step happens before it on any path with a context), a cancelled context returns at once, and sleep waits through the state's context")
	r.Rule("C09.R2", "depth guard: State.Eval compares depth with MaxDepth before incrementing, panics beyond it and decrements after evaluating; applyFunction evaluates the callee body through Eval; every other recursive cycle reachable from program text (static calls and interface invokes, Eval removed) is enumerated: each is bounded only by source or data nesting, is a known finding, and a new one is a violation")
	r.Rule("C09.R3", "program-bounded loops: a Go loop in the evaluator whose trip count derives from a program integer re-enters the evaluator (context check) on every iteration, or its trip count is bounded by a size that passed the memory guard")
	r.Rule("C09.R4", "guarded allocation: make / strings.Repeat / string concatenation sized by program values is dominated by the memory guard on that size; a guarded size that is a product of program values is protected against overflow; SizeOk rejects negative sizes")
	r.Rule("C09.R9", "the limits of the command line reach every state: wherever packages main and repl call eval.NewState() in a function that has a repl.Options value at hand, the new state's MaxDepth, MaxValueLen and NoReg are stored from the Options fields of the same name")
	r.Rule("C09.R6", "live figures: the value object.FreeMemory returns is computed from a debug.SetMemoryLimit(-1) query and a runtime.ReadMemStats reading made by that very call, and from no package-level variable")
	r.Rule("C09.R7", "deadline and depth inheritance: wherever package eval or extensions creates an eval.State (NewBlankState/NewState) in a function that has a running *State at hand, the new state's Context and depth are assigned from a running state's")
	r.Rule("C09.R8", "deadline hand-back: in package extensions, after a store of a deadline-free context (context.WithCancel(context.Background())) into State.Context, every path to a return (followed with correlated tests of state fields against nil) passes another store to State.Context or a defer of a closure that makes one")
	r.Rule("C09.R5", "recovery: EvalOne defers a recover that resets the state, installs a per-input context from MaxDuration and defers its cancel; the wasm entry passes a depth and a duration limit")

	stateT := c.TypeNamed("eval", "State")
	evalInternal := c.SSAFn(c.Fn("eval", "State.evalInternal"))
	stateEval := c.SSAFn(c.Fn("eval", "State.Eval"))

	// ---- R1 ----
	{
		fn := evalInternal
		fname := ssaFuncName(fn)
		arm, okEntry := c.expiredContextArm(fn)
		r.Check(okEntry, "C09.R1", fname, "the first action of evalInternal is the s.Context != nil test", c.Pos(fn.Pos()), "something is evaluated before the deadline/cancellation test: a loop whose iterations only go through evalInternal no longer notices the deadline")
		if okEntry {
			// on the true edge: Err() != nil -> return without evaluating
			okErr := false
			if arm != nil {
				if _, isRet := arm.Instrs[len(arm.Instrs)-1].(*ssa.Return); isRet {
					evals := false
					for _, in := range arm.Instrs {
						if isCallTo(in, c.Fn("eval", "State.evalInternal"), c.Fn("eval", "State.Eval")) {
							evals = true
						}
					}
					okErr = !evals
				}
			}
			r.Check(okErr, "C09.R1", fname, "a cancelled or expired context returns immediately", c.Pos(fn.Pos()), "when Context.Err() is non-nil evalInternal does not return at once")
		}
		// sleep uses the state's context
		for _, reg := range c.ExtReg() {
			if len(reg.Names) == 1 && reg.Names[0] == "sleep" && reg.Callback != nil {
				okSleep := false
				eachInstr(reg.Callback, func(in ssa.Instruction) {
					call, ok := in.(*ssa.Call)
					if !ok {
						return
					}
					if obj := calleeObj(call); obj != nil && obj.Name() == "SleepWithContext" && len(call.Common().Args) >= 1 {
						if ld, ok := call.Common().Args[0].(*ssa.UnOp); ok && isFieldAddrOf(ld.X, stateT, "Context") {
							okSleep = true
						}
					}
					if obj := calleeObj(call); obj != nil && obj.Pkg() != nil && obj.Pkg().Path() == "time" && obj.Name() == "Sleep" {
						okSleep = false
					}
				})
				r.Check(okSleep, "C09.R1", ssaFuncName(reg.Callback), "sleep waits through the state's context", c.Pos(reg.Site.Pos()), "sleep() does not wait on s.Context: a sleeping script outlives the deadline")
			}
		}
	}
	r.Floor("C09.R1", 3)

	// ---- R2 ----
	{
		fn := stateEval
		fname := ssaFuncName(fn)
		var guardIf *ssa.If
		for _, b := range fn.Blocks {
			ifi, ok := b.Instrs[len(b.Instrs)-1].(*ssa.If)
			if !ok {
				continue
			}
			bin, ok := ifi.Cond.(*ssa.BinOp)
			if !ok || (bin.Op != token.GTR && bin.Op != token.GEQ) {
				continue
			}
			lx, ok1 := bin.X.(*ssa.UnOp)
			ly, ok2 := bin.Y.(*ssa.UnOp)
			if ok1 && ok2 && isFieldAddrOf(lx.X, stateT, "depth") && isFieldAddrOf(ly.X, stateT, "MaxDepth") {
				guardIf = ifi
			}
		}
		okGuard := false
		if guardIf != nil && guardIf.Block() == fn.Blocks[0] {
			tb := guardIf.Block().Succs[0]
			if _, isPanic := tb.Instrs[len(tb.Instrs)-1].(*ssa.Panic); isPanic {
				okGuard = true
			}
		}
		r.Check(okGuard, "C09.R2", fname, "Eval panics when depth exceeds MaxDepth, before anything else", c.Pos(fn.Pos()), "the recursion depth test is missing, not first, or does not panic: unbounded recursion overflows the Go stack, which is not recoverable")
		// depth++ dominates the evalInternal call, depth-- follows it
		var incr, decr *ssa.Store
		var call ssa.Instruction
		eachInstr(fn, func(in ssa.Instruction) {
			if st, ok := in.(*ssa.Store); ok && isFieldAddrOf(st.Addr, stateT, "depth") {
				if bin, ok := st.Val.(*ssa.BinOp); ok {
					if k, ok := constInt(bin.Y); ok && k == 1 {
						if bin.Op == token.ADD {
							incr = st
						} else if bin.Op == token.SUB {
							decr = st
						}
					}
				}
			}
			if isCallTo(in, c.Fn("eval", "State.evalInternal")) {
				call = in
			}
		})
		okCount := incr != nil && decr != nil && call != nil && instrDominates(incr, call) && instrDominates(call, decr) &&
			(guardIf == nil || instrDominates(guardIf, incr))
		r.Check(okCount, "C09.R2", fname, "depth is incremented before and decremented after evalInternal", c.Pos(fn.Pos()), "the depth counter does not bracket the evaluation")
		// applyFunction goes through Eval
		af := c.cacheStoreFn() // applyFunction, or the part of it that evaluates the body
		extend := c.Fn("eval", "State.extendFunctionEnv")
		viaEval := false
		direct := false
		for _, ec := range callsIn(af, c.Fn("eval", "State.Eval")) {
			if ex, ok := ec.Common().Args[1].(*ssa.MakeInterface); ok {
				_ = ex
			}
			arg := ec.Common().Args[1]
			for i := 0; i < 3; i++ {
				switch a := arg.(type) {
				case *ssa.MakeInterface:
					arg = a.X
				case *ssa.ChangeInterface:
					arg = a.X
				}
			}
			// the body may be handed over as a parameter (applyFunction split after extendFunctionEnv)
			if p, ok := arg.(*ssa.Parameter); ok {
				if sites := c.staticCallSites(af); len(sites) > 0 {
					arg = sites[0].Common().Args[paramIndex(af, p)]
					for _, site := range sites[1:] {
						if site.Common().Args[paramIndex(af, p)] != arg {
							arg = nil
						}
					}
				}
			}
			if ex, ok := arg.(*ssa.Extract); ok {
				if cl, ok := ex.Tuple.(*ssa.Call); ok && isCallTo(cl, extend) {
					viaEval = true
				}
			}
		}
		if len(callsIn(af, c.Fn("eval", "State.evalInternal"))) > 0 {
			direct = true
		}
		r.Check(viaEval && !direct, "C09.R2", ssaFuncName(af), "function bodies are evaluated through the depth-guarded Eval", c.Pos(af.Pos()), "applyFunction evaluates the callee body without passing through State.Eval: recursion is not counted")
		// enumerate Eval-free recursion
		reach := c.programReach()
		delete(reach, stateEval)
		for _, comp := range c.recursiveSCCs(reach, staticOrInvoke) {
			key := sccKey(comp)
			pos := c.Pos(comp[0].Pos())
			if why, ok := recursionExceptions[key]; ok {
				r.OkWhy("C09.R2", "recursion", "recursive cycle "+key, pos, "exception: "+why)
				continue
			}
			r.Fail("C09.R2", "recursion", "unguarded recursive cycle "+key, pos,
				"this recursion does not pass through the depth-guarded State.Eval: it is bounded only by the nesting of the source text or of the data, so deeply nested input overflows the Go stack (fatal, not recoverable)")
		}
	}
	r.Floor("C09.R2", 8)

	c.checkOptionsReachStates(r, "C09.R9")
	// ---- R3 / R4 ----
	c.checkProgramLoopsAndAllocs(r)

	// ---- R5 ----
	{
		evalOne := c.SSAFn(c.Fn("repl", "EvalOne"))
		fname := ssaFuncName(evalOne)
		reset := c.Fn("eval", "State.Reset")
		setContext := c.Fn("eval", "State.SetContext")
		okRecover := false
		eachInstr(evalOne, func(in ssa.Instruction) {
			d, ok := in.(*ssa.Defer)
			if !ok {
				return
			}
			mc, ok := d.Call.Value.(*ssa.MakeClosure)
			if !ok {
				return
			}
			f, ok := mc.Fn.(*ssa.Function)
			if !ok {
				return
			}
			hasRecover, hasReset := false, false
			eachInstr(f, func(x ssa.Instruction) {
				if call, ok := x.(*ssa.Call); ok {
					if bi, ok := call.Common().Value.(*ssa.Builtin); ok && bi.Name() == "recover" {
						hasRecover = true
					}
					if isCallTo(call, reset) {
						hasReset = true
					}
				}
			})
			if hasRecover && hasReset {
				okRecover = true
			}
		})
		r.Check(okRecover, "C09.R5", fname, "deferred recover resets the state", c.Pos(evalOne.Pos()), "EvalOne does not defer a function that recovers and calls State.Reset: a depth or memory guard panic kills the host or leaves the state unusable")
		okCtx := false
		for _, sc := range callsIn(evalOne, setContext) {
			call := sc.(*ssa.Call)
			// duration argument is options.MaxDuration
			durOK := false
			switch d := call.Common().Args[2].(type) {
			case *ssa.UnOp:
				if fa, ok := d.X.(*ssa.FieldAddr); ok {
					if n := namedStruct(fa.X.Type()); n != nil && n.Underlying().(*types.Struct).Field(fa.Field).Name() == "MaxDuration" {
						durOK = true
					}
				}
			case *ssa.Field:
				if st, ok := d.X.Type().Underlying().(*types.Struct); ok && st.Field(d.Field).Name() == "MaxDuration" {
					durOK = true
				}
			}
			// cancel deferred
			deferred := false
			for _, ref := range *call.Referrers() {
				if df, ok := ref.(*ssa.Defer); ok && df.Call.Value == ssa.Value(call) {
					deferred = true
				}
			}
			if durOK && deferred {
				okCtx = true
			}
		}
		r.Check(okCtx, "C09.R5", fname, "per-input context from options.MaxDuration with deferred cancel", c.Pos(evalOne.Pos()), "EvalOne does not install a context bounded by MaxDuration (or does not cancel it)")
	}
	r.Floor("C09.R5", 2)
}

// checkProgramLoopsAndAllocs: R3 and R4 over the evaluator and object packages.
func (c *Ctx) checkProgramLoopsAndAllocs(r *Report) {
	t := NewTaint(c, c.intTaintSpec())
	mustBeOk := c.Fn("object", "MustBeOk")
	makeSlice := c.Fn("object", "MakeObjectSlice")
	evalI := c.Fn("eval", "State.evalInternal")
	evalE := c.Fn("eval", "State.Eval")
	reach := c.programReach()
	// values passed to the memory guard, with the guarding call
	type guard struct {
		call *ssa.Call
		arg  ssa.Value
	}
	guardsIn := func(fn *ssa.Function) []guard {
		var gs []guard
		for _, g := range callsIn(fn, mustBeOk, makeSlice) {
			gs = append(gs, guard{g.(*ssa.Call), g.Common().Args[0]})
		}
		return gs
	}
	// derives(v, w): v is computed from w through conversions/arithmetic with constants, or v == w
	var derives func(v, w ssa.Value, d int) bool
	derives = func(v, w ssa.Value, d int) bool {
		if v == w || sameExpr(v, w) {
			return true
		}
		if d > 5 {
			return false
		}
		switch x := v.(type) {
		case *ssa.Convert:
			return derives(x.X, w, d+1)
		case *ssa.BinOp:
			return derives(x.X, w, d+1) || derives(x.Y, w, d+1)
		case *ssa.Call:
			if _, ok := x.Common().Value.(*ssa.Builtin); ok {
				for _, a := range x.Common().Args {
					if derives(a, w, d+1) {
						return true
					}
				}
			}
		}
		return false
	}
	nLoops, nAllocs := 0, 0
	for _, fn := range sortedFuncs(reach) {
		pk := ""
		if fn.Pkg != nil {
			pk = shortPkg(fn.Pkg.Pkg)
		} else if fn.Parent() != nil && fn.Parent().Pkg != nil {
			pk = shortPkg(fn.Parent().Pkg.Pkg)
		}
		if pk != "eval" && pk != "object" && pk != "extensions" {
			continue
		}
		gs := guardsIn(fn)
		// R3 loops
		for _, h := range loopHeaders(fn) {
			// trip count: loop condition phi < bound, or range-over-int
			var bound ssa.Value
			body := loopBlocks(h)
			for b := range body {
				ifi, ok := b.Instrs[len(b.Instrs)-1].(*ssa.If)
				if !ok {
					continue
				}
				exits := !body[b.Succs[0]] || !body[b.Succs[1]]
				if !exits {
					continue
				}
				if bin, ok := ifi.Cond.(*ssa.BinOp); ok && (bin.Op == token.LSS || bin.Op == token.LEQ) && t.May(bin.Y) {
					bound = bin.Y
				}
			}
			if bound == nil {
				continue
			}
			nLoops++
			desc := fmt.Sprintf("loop %s bounded by a program integer", h.Comment)
			// re-enters the evaluator on every cycle?
			cyc := cycleAvoiding(h, func(in ssa.Instruction) bool { return isCallTo(in, evalI, evalE) })
			if cyc == nil {
				r.OkWhy("C09.R3", ssaFuncName(fn), desc, c.Pos(firstPos(h)), "every iteration re-enters the evaluator (deadline test)")
				continue
			}
			// trip count guarded by the memory guard
			ok := false
			why := "no memory guard on the trip count dominates the loop"
			for _, g := range gs {
				if !g.call.Block().Dominates(h) {
					continue
				}
				if derives(g.arg, bound, 0) || derives(bound, g.arg, 0) {
					// a product guard only bounds the count if the other factor is >= 1
					if mul := findMul(g.arg); mul != nil && !productBoundsCount(mul, bound, g.call.Block()) {
						why = "the guarded size is a product with a factor that can be zero: an empty operand makes the loop run for the full program-chosen count without any deadline test"
						continue
					}
					ok = true
				}
			}
			r.Check(ok, "C09.R3", ssaFuncName(fn), desc, c.Pos(firstPos(h)), why+": the loop runs for a program-chosen number of iterations without re-entering the evaluator, so neither the deadline nor the memory budget stops it")
		}
		// R4 allocations
		eachInstr(fn, func(in ssa.Instruction) {
			var size ssa.Value
			kind := ""
			switch x := in.(type) {
			case *ssa.MakeSlice:
				if t.May(x.Len) {
					size, kind = x.Len, "make"
				} else if t.May(x.Cap) {
					size, kind = x.Cap, "make"
				}
			case *ssa.Call:
				if stdName(x) == "strings.Repeat" && t.May(x.Common().Args[1]) {
					size, kind = x.Common().Args[1], "strings.Repeat"
				}
			}
			if size == nil {
				return
			}
			nAllocs++
			ok := false
			for _, g := range gs {
				if instrDominates(g.call, in) && (derives(g.arg, size, 0) || derives(size, g.arg, 0)) {
					ok = true
				}
			}
			if fn.Object() == types.Object(makeSlice) {
				ok = true
			}
			r.Check(ok, "C09.R4", ssaFuncName(fn), kind+" sized by a program integer is dominated by the memory guard", c.Pos(in.Pos()),
				"an allocation whose size a program chooses is not preceded by MustBeOk/MakeObjectSlice on that size: the process can be driven out of memory (fatal) or into a runtime panic")
			if call, isCall := in.(*ssa.Call); isCall && kind == "strings.Repeat" {
				// the result has len(s) * count bytes: a guard on the count alone budgets one byte per repetition
				if _, isConst := call.Common().Args[0].(*ssa.Const); !isConst {
					okLen := false
					for _, g := range gs {
						if instrDominates(g.call, in) && derives(g.arg, call.Common().Args[0], 0) {
							okLen = true
						}
					}
					r.Check(okLen, "C09.R4", ssaFuncName(fn), "strings.Repeat of a program string is guarded on a size that includes the string's length", c.Pos(in.Pos()),
						"the size handed to the memory guard before strings.Repeat(s, n) is not computed from len(s): the result has len(s)*n bytes, so a long s with a moderate n passes the guard and allocates far more than the budget")
				}
			}
		})
		// library calls whose result is not linear in any one operand (each match / verb can expand)
		eachInstr(fn, func(in ssa.Instruction) {
			call, ok := in.(*ssa.Call)
			if !ok {
				return
			}
			obj := calleeObj(call)
			if obj == nil || obj.Pkg() == nil {
				return
			}
			name := obj.Pkg().Path() + "." + obj.Name()
			var operands []ssa.Value
			args := call.Common().Args
			switch name {
			case "regexp.ReplaceAllString", "regexp.ReplaceAllLiteralString", "regexp.ReplaceAll", "regexp.ReplaceAllLiteral":
				if len(args) == 3 {
					operands = []ssa.Value{args[1], args[2]}
				}
			case "strings.ReplaceAll":
				if len(args) == 3 {
					operands = []ssa.Value{args[0], args[2]}
				}
			case "strings.Replace":
				if len(args) == 4 {
					operands = []ssa.Value{args[0], args[2]}
				}
			case "fmt.Sprintf":
				if len(args) >= 1 && c.programChosenFormat(args[0], 0) {
					operands = []ssa.Value{args[0]}
				}
			}
			if len(operands) == 0 {
				return
			}
			for _, o := range operands {
				if _, isK := o.(*ssa.Const); isK {
					return // a constant operand: the result is linear in the other
				}
			}
			nAllocs++
			okG := false
			for _, g := range gs {
				if !instrDominates(g.call, in) {
					continue
				}
				// the guarded size depends on the length of an operand
				seen := map[ssa.Value]bool{}
				var has func(v ssa.Value) bool
				has = func(v ssa.Value) bool {
					if v == nil || seen[v] {
						return false
					}
					seen[v] = true
					if lc, ok := v.(*ssa.Call); ok {
						if bi, ok := lc.Common().Value.(*ssa.Builtin); ok && bi.Name() == "len" {
							for _, o := range operands {
								if lc.Common().Args[0] == o {
									return true
								}
							}
						}
					}
					if x, ok := v.(ssa.Instruction); ok {
						for _, op := range x.Operands(nil) {
							if *op != nil && has(*op) {
								return true
							}
						}
					}
					return false
				}
				if has(g.arg) {
					okG = true
				}
			}
			r.Check(okG, "C09.R4", ssaFuncName(fn), "library call "+name+" with program-chosen operands is dominated by the memory guard", c.Pos(in.Pos()),
				"the result of "+name+" can be far larger than its arguments (every match, or a width in the format, expands) and no memory guard computed from their lengths precedes it: a short program exhausts memory")
		})
		// strings.Join of program strings: the guard's size accounts for the separator too
		eachInstr(fn, func(in ssa.Instruction) {
			call, ok := in.(*ssa.Call)
			if !ok || stdName(call) != "strings.Join" {
				return
			}
			sep := call.Common().Args[1]
			if _, isK := sep.(*ssa.Const); isK {
				return
			}
			nAllocs++
			why := "no memory guard dominates the join"
			okJ := false
			for _, g := range gs {
				if !instrDominates(g.call, in) {
					continue
				}
				why = "the guarded size does not depend on the length of the separator that is joined in: a result made almost only of separators is not accounted for"
				seen := map[ssa.Value]bool{}
				var has func(v ssa.Value) bool
				has = func(v ssa.Value) bool {
					if v == nil || seen[v] {
						return false
					}
					seen[v] = true
					if lc, ok := v.(*ssa.Call); ok {
						if bi, ok := lc.Common().Value.(*ssa.Builtin); ok && bi.Name() == "len" && lc.Common().Args[0] == sep {
							return true
						}
					}
					if x, ok := v.(ssa.Instruction); ok {
						for _, op := range x.Operands(nil) {
							if *op != nil && has(*op) {
								return true
							}
						}
					}
					return false
				}
				if has(g.arg) {
					okJ = true
				}
			}
			r.Check(okJ, "C09.R4", ssaFuncName(fn), "strings.Join with a program-chosen separator is guarded on a size that includes the separator", c.Pos(in.Pos()), why)
		})
		// guarded products: overflow protection
		for _, g := range gs {
			mul := findMul(g.arg)
			if mul == nil {
				continue
			}
			_, xk := constInt(mul.X)
			_, yk := constInt(mul.Y)
			if xk || yk {
				continue
			}
			if !t.May(mul.X) && !t.May(mul.Y) {
				continue
			}
			nAllocs++
			okOvf := overflowChecked(mul, g.call.Block())
			r.Check(okOvf, "C09.R4", ssaFuncName(fn), "guarded size is an overflow-checked product", c.Pos(g.call.Pos()),
				"the size handed to the memory guard is a product of program-controlled values that can overflow: the guard sees a small or negative number and the following allocation panics inside the runtime (e.g. \"ab\"*(1<<62))")
		}
		// string concatenation in the evaluator
		if pk == "eval" {
			eachInstr(fn, func(in ssa.Instruction) {
				bin, ok := in.(*ssa.BinOp)
				if !ok || bin.Op != token.ADD {
					return
				}
				bt, ok := bin.Type().Underlying().(*types.Basic)
				if !ok || bt.Kind() != types.String {
					return
				}
				// both operands are program strings (String.Value)
				if !isStringValueField(bin.X) || !isStringValueField(bin.Y) {
					return
				}
				nAllocs++
				ok2 := false
				for _, g := range gs {
					if instrDominates(g.call, in) && mentionsLenOf(g.arg, bin.X, 0) && mentionsLenOf(g.arg, bin.Y, 0) {
						ok2 = true
					}
				}
				r.Check(ok2, "C09.R4", ssaFuncName(fn), "concatenation of two program strings is dominated by the memory guard", c.Pos(bin.Pos()),
					"string + string allocates len(a)+len(b) bytes without consulting the memory budget (s=s+s in a loop doubles memory until the process dies); the array and map + operators and string * do check")
			})
		}
	}
	// SizeOk rejects negative
	{
		sz := c.SSAFn(c.Fn("object", "SizeOk"))
		okNeg := false
		// the early `return true` must not be reachable for negative n: either a test n < 0 exists or the small-size test is two-sided
		eachInstr(sz, func(in ssa.Instruction) {
			if bin, ok := in.(*ssa.BinOp); ok && bin.X == ssa.Value(sz.Params[0]) {
				if k, ok := constInt(bin.Y); ok && k == 0 && (bin.Op == token.LSS || bin.Op == token.GEQ) {
					okNeg = true
				}
			}
		})
		r.Check(okNeg, "C09.R4", ssaFuncName(sz), "SizeOk rejects negative sizes", c.Pos(sz.Pos()), "SizeOk answers true for every n <= 256 including negative n (an overflowed size): the guard is bypassed")
		nAllocs++
	}
	// R6: the guard reads live figures
	{
		fm := c.SSAFn(c.Fn("object", "FreeMemory"))
		fname := ssaFuncName(fm)
		var limitCall, statsCall bool
		var globals []string
		seen := map[ssa.Value]bool{}
		var slice func(v ssa.Value)
		slice = func(v ssa.Value) {
			if v == nil || seen[v] {
				return
			}
			seen[v] = true
			switch x := v.(type) {
			case *ssa.Global:
				globals = append(globals, x.Name())
				return
			case *ssa.Call:
				if obj := calleeObj(x); obj != nil && obj.Pkg() != nil {
					if obj.Pkg().Path() == "runtime/debug" && obj.Name() == "SetMemoryLimit" {
						if k, ok := constInt(x.Common().Args[0]); ok && k < 0 {
							limitCall = true
						}
					}
				}
			case *ssa.Alloc:
				for _, ref := range *x.Referrers() {
					if call, ok := ref.(*ssa.Call); ok {
						if obj := calleeObj(call); obj != nil && obj.Pkg() != nil && obj.Pkg().Path() == "runtime" && obj.Name() == "ReadMemStats" {
							statsCall = true
						}
					}
					if st, ok := ref.(*ssa.Store); ok && st.Addr == ssa.Value(x) {
						slice(st.Val)
					}
				}
			}
			if in, ok := v.(ssa.Instruction); ok {
				for _, op := range in.Operands(nil) {
					if *op != nil {
						slice(*op)
					}
				}
			}
		}
		nRet := 0
		eachInstr(fm, func(in ssa.Instruction) {
			if ret, ok := in.(*ssa.Return); ok {
				nRet++
				for i := range ret.Results {
					slice(retVal(ret, i))
				}
			}
		})
		r.Check(nRet > 0 && limitCall, "C09.R6", fname, "the limit is queried (debug.SetMemoryLimit(-1)) on every call", c.Pos(fm.Pos()),
			"the value FreeMemory returns does not depend on a debug.SetMemoryLimit(<0) query made by this call: a limit set after start-up (the wasm entry point sets one in main) is not seen and every size passes the guard")
		r.Check(nRet > 0 && statsCall, "C09.R6", fname, "the heap in use is read (runtime.ReadMemStats) on every call", c.Pos(fm.Pos()),
			"the value FreeMemory returns does not depend on memory statistics read by this call")
		sort.Strings(globals)
		r.Check(len(globals) == 0, "C09.R6", fname, "no memoised figure", c.Pos(fm.Pos()),
			"the value FreeMemory returns depends on package-level state ("+strings.Join(globals, ", ")+"): a figure captured earlier stands in for the live one")
		r.Floor("C09.R6", 3)
	}
	// R7: a state created while a program is running inherits that program's deadline
	{
		stateT := c.TypeNamed("eval", "State")
		ctxIdx := fieldIndex(stateT, "Context")
		ctors := []*types.Func{c.Fn("eval", "NewBlankState"), c.Fn("eval", "NewState")}
		isStatePtr := func(t types.Type) bool {
			p, ok := t.(*types.Pointer)
			if !ok {
				return false
			}
			n, ok := p.Elem().(*types.Named)
			return ok && n.Obj() == stateT.Obj()
		}
		n7 := 0
		for _, fn := range c.ModuleSSAFuncs() {
			if fn.Pkg == nil {
				continue
			}
			if pk := shortPkg(fn.Pkg.Pkg); pk != "eval" && pk != "extensions" {
				continue
			}
			// is a running state at hand? (a *State parameter/receiver, or a value asserted to *State)
			hasState := false
			for _, p := range fn.Params {
				if isStatePtr(p.Type()) {
					hasState = true
				}
			}
			eachInstr(fn, func(in ssa.Instruction) {
				if ta, ok := in.(*ssa.TypeAssert); ok && isStatePtr(ta.AssertedType) {
					hasState = true
				}
			})
			if !hasState {
				continue
			}
			for _, call := range callsIn(fn, ctors...) {
				cv, ok := call.(*ssa.Call)
				if !ok {
					continue
				}
				n7++
				inheritsField := func(fidx int) bool {
					inherits := false
					for _, ref := range *cv.Referrers() {
						fa, ok := ref.(*ssa.FieldAddr)
						if !ok || fa.Field != fidx {
							continue
						}
						for _, r2 := range *fa.Referrers() {
							st, ok := r2.(*ssa.Store)
							if !ok || st.Addr != ssa.Value(fa) {
								continue
							}
							// the stored value comes (possibly through a phi or a local) from another state's field
							seen := map[ssa.Value]bool{}
							var from func(v ssa.Value) bool
							from = func(v ssa.Value) bool {
								if v == nil || seen[v] {
									return false
								}
								seen[v] = true
								if ld, ok := v.(*ssa.UnOp); ok {
									if lfa, ok := ld.X.(*ssa.FieldAddr); ok && lfa.Field == fidx && isStatePtr(lfa.X.Type()) && lfa.X != ssa.Value(cv) {
										return true
									}
									if al, ok := ld.X.(*ssa.Alloc); ok {
										for _, ar := range *al.Referrers() {
											if ast, ok := ar.(*ssa.Store); ok && ast.Addr == ssa.Value(al) && from(ast.Val) {
												return true
											}
										}
									}
								}
								if phi, ok := v.(*ssa.Phi); ok {
									for _, e := range phi.Edges {
										if from(e) {
											return true
										}
									}
								}
								return false
							}
							if from(st.Val) {
								inherits = true
							}
						}
					}
					return inherits
				}
				inherits := inheritsField(ctxIdx)
				r.Check(inheritsField(fieldIndex(stateT, "depth")), "C09.R7", ssaFuncName(fn), "a state created next to a running one inherits its depth", c.Pos(cv.Pos()),
					"the new eval.State evaluates program text on behalf of the running one (macro bodies, nested unjson) but starts counting depth at 0: recursion through it never reaches the limit and ends in a fatal Go stack overflow (m = macro(){eval(\"m()\"); quote(1)}; m())")
				r.Check(inherits, "C09.R7", ssaFuncName(fn), "a state created next to a running one inherits its Context", c.Pos(cv.Pos()),
					"the new eval.State evaluates program text (nested eval/unjson, macro bodies) but its Context is never set from the state already running: evalInternal only tests a non-nil Context, so that evaluation ignores the deadline (unjson(\"for true {}\") never returns)")
			}
		}
		// a function that hands a state other than its receiver back to its caller sets that state's Context
		// from the receiver's on every path (a state kept from an earlier input holds that input's cancelled context)
		for _, fn := range c.ModuleSSAFuncs() {
			if fn.Pkg == nil || shortPkg(fn.Pkg.Pkg) != "eval" || fn.Signature.Recv() == nil || !isStatePtr(fn.Signature.Recv().Type()) {
				continue
			}
			res := fn.Signature.Results()
			stIdx := -1
			for i := 0; i < res.Len(); i++ {
				if isStatePtr(res.At(i).Type()) {
					stIdx = i
				}
			}
			if stIdx < 0 {
				continue
			}
			// a return that hands back no state (nil, next to an error) has nothing to carry
			returnsState := func(in ssa.Instruction) bool {
				ret, ok := in.(*ssa.Return)
				return ok && !isNilConst(retVal(ret, stIdx))
			}
			recv := fn.Params[0]
			var ctxFromRecvOf func(recv ssa.Value, depth int) func(in ssa.Instruction) bool
			ctxFromRecvOf = func(recv ssa.Value, depth int) func(in ssa.Instruction) bool {
				return func(in ssa.Instruction) bool {
					// a helper method of the running state that builds the new state and sets its Context from the
					// receiver on every path
					if hc, ok := in.(*ssa.Call); ok && depth < 2 {
						callee := hc.Common().StaticCallee()
						if callee != nil && isModuleSSA(callee) && callee.Blocks != nil && len(callee.Params) > 0 && len(hc.Common().Args) > 0 && hc.Common().Args[0] == recv && isStatePtr(callee.Params[0].Type()) {
							return mustPassFromEntry(callee, ctxFromRecvOf(callee.Params[0], depth+1), isReturn) == nil
						}
						return false
					}
					st, ok := in.(*ssa.Store)
					if !ok {
						return false
					}
					fa, ok := st.Addr.(*ssa.FieldAddr)
					if !ok || fa.Field != ctxIdx || !isStatePtr(fa.X.Type()) || fa.X == recv {
						return false
					}
					ld, ok := st.Val.(*ssa.UnOp)
					if !ok {
						return false
					}
					lfa, ok := ld.X.(*ssa.FieldAddr)
					return ok && lfa.Field == ctxIdx && lfa.X == recv
				}
			}
			isCtxFromRecv := func(in ssa.Instruction) bool {
				if ctxFromRecvOf(recv, 0)(in) {
					return true
				}
				st, ok := in.(*ssa.Store)
				if !ok {
					return false
				}
				fa, ok := st.Addr.(*ssa.FieldAddr)
				if !ok || fa.Field != ctxIdx || !isStatePtr(fa.X.Type()) || fa.X == ssa.Value(recv) {
					return false
				}
				ld, ok := st.Val.(*ssa.UnOp)
				if !ok {
					return false
				}
				lfa, ok := ld.X.(*ssa.FieldAddr)
				return ok && lfa.Field == ctxIdx && lfa.X == ssa.Value(recv)
			}
			returnsOther := false
			eachInstr(fn, func(in ssa.Instruction) {
				if ret, ok := in.(*ssa.Return); ok && returnsState(in) && retVal(ret, stIdx) != ssa.Value(recv) {
					returnsOther = true
				}
			})
			if !returnsOther {
				continue
			}
			n7++
			bad := mustPassFromEntry(fn, isCtxFromRecv, returnsState)
			desc := "the state handed back carries the receiver's current Context on every path"
			if bad != nil {
				r.Fail("C09.R7", ssaFuncName(fn), desc, c.Pos(instrPos(bad.exit)), "a path returns a state whose Context was not set from the running state during this call (a state created once and reused keeps the context of the input that created it, cancelled since: macro bodies then fail with `context canceled`, or run without deadline)", c.tracePath(bad)...)
			} else {
				r.Ok("C09.R7", ssaFuncName(fn), desc, c.Pos(fn.Pos()))
			}
		}
		if n7 < 3 {
			r.Undecided("C09.R7: only %d state constructions / hand-backs next to a running state found (EvalString and extendMacroEnv expected)", n7)
		}
		r.Floor("C09.R7", 3)
	}
	// R8: a callback that takes the deadline away gives one back
	{
		stateT := c.TypeNamed("eval", "State")
		ctxIdx := fieldIndex(stateT, "Context")
		isCtxStore := func(in ssa.Instruction) (*ssa.Store, bool) {
			st, ok := in.(*ssa.Store)
			if !ok {
				return nil, false
			}
			fa, ok := st.Addr.(*ssa.FieldAddr)
			if !ok || fa.Field != ctxIdx || namedStruct(fa.X.Type()) == nil || namedStruct(fa.X.Type()).Obj() != stateT.Obj() {
				return nil, false
			}
			return st, true
		}
		noDeadline := func(v ssa.Value) bool {
			// extract #0 of context.WithCancel(context.Background()) / context.Background() itself
			if ex, ok := v.(*ssa.Extract); ok {
				if call, ok := ex.Tuple.(*ssa.Call); ok && stdName(call) == "context.WithCancel" {
					if bg, ok := call.Common().Args[0].(*ssa.Call); ok && (stdName(bg) == "context.Background" || stdName(bg) == "context.TODO") {
						return true
					}
				}
			}
			if call, ok := v.(*ssa.Call); ok && (stdName(call) == "context.Background" || stdName(call) == "context.TODO") {
				return true
			}
			return false
		}
		// a function (closure or helper) that stores State.Context on every path from its entry to a return,
		// directly or through another such helper
		var alwaysStores func(f *ssa.Function, depth int) bool
		isRet := func(x ssa.Instruction) bool { _, ok := x.(*ssa.Return); return ok }
		alwaysStores = func(f *ssa.Function, depth int) bool {
			if f == nil || len(f.Blocks) == 0 || depth > 3 {
				return false
			}
			return mustPassFromEntry(f, func(x ssa.Instruction) bool {
				if _, ok := isCtxStore(x); ok {
					return true
				}
				if call, ok := x.(*ssa.Call); ok {
					return alwaysStores(call.Common().StaticCallee(), depth+1)
				}
				return false
			}, isRet) == nil
		}
		restores := func(in ssa.Instruction, skip *ssa.Store) bool {
			if st, ok := isCtxStore(in); ok && st != skip {
				return true
			}
			switch d := in.(type) {
			case *ssa.Defer:
				return alwaysStores(d.Call.StaticCallee(), 0)
			case *ssa.Call:
				return alwaysStores(d.Call.StaticCallee(), 0)
			}
			return false
		}
		// condition key: comparison of a field of the state with nil
		condKey := func(v ssa.Value) (string, bool, bool) {
			bin, ok := v.(*ssa.BinOp)
			if !ok || (bin.Op != token.NEQ && bin.Op != token.EQL) || !isNilConst(bin.Y) {
				return "", false, false
			}
			ld, ok := bin.X.(*ssa.UnOp)
			if !ok {
				return "", false, false
			}
			fa, ok := ld.X.(*ssa.FieldAddr)
			if !ok || namedStruct(fa.X.Type()) == nil || namedStruct(fa.X.Type()).Obj() != stateT.Obj() {
				return "", false, false
			}
			return fmt.Sprintf("field%d", fa.Field), bin.Op == token.NEQ, true
		}
		n8 := 0
		for _, fn := range c.ModuleSSAFuncs() {
			top := fn
			for top.Parent() != nil {
				top = top.Parent()
			}
			if top.Pkg == nil || shortPkg(top.Pkg.Pkg) != "extensions" {
				continue
			}
			eachInstr(fn, func(in ssa.Instruction) {
				s1, ok := isCtxStore(in)
				if !ok || !noDeadline(s1.Val) {
					return
				}
				n8++
				// what is known where the deadline is taken away
				known := map[string]bool{}
				for _, cc := range controlling(s1.Block()) {
					if k, neqTrue, ok := condKey(cc.Cond); ok {
						known[k] = (cc.Edge == 0) == neqTrue // field != nil ?
					}
				}
				type st struct {
					b *ssa.BasicBlock
					k string
				}
				seen := map[st]bool{}
				var bad *pathResult
				var walk func(b *ssa.BasicBlock, from int, known map[string]bool, trail []*ssa.BasicBlock)
				walk = func(b *ssa.BasicBlock, from int, known map[string]bool, trail []*ssa.BasicBlock) {
					if bad != nil {
						return
					}
					if from == 0 {
						key := st{b, fmt.Sprint(known)}
						if seen[key] {
							return
						}
						seen[key] = true
					}
					trail = append(trail, b)
					for i := from; i < len(b.Instrs); i++ {
						x := b.Instrs[i]
						if restores(x, s1) {
							return
						}
						if _, isRet := x.(*ssa.Return); isRet {
							bad = &pathResult{exit: x, trace: append([]*ssa.BasicBlock{}, trail...)}
							return
						}
						if _, isPanic := x.(*ssa.Panic); isPanic {
							return
						}
					}
					if ifi, ok := b.Instrs[len(b.Instrs)-1].(*ssa.If); ok {
						if k, neqTrue, ok := condKey(ifi.Cond); ok {
							if v, decided := known[k]; decided {
								edge := 1
								if v == neqTrue {
									edge = 0
								}
								walk(b.Succs[edge], 0, known, trail)
								return
							}
							for e := 0; e < 2; e++ {
								nk := map[string]bool{}
								for kk, vv := range known {
									nk[kk] = vv
								}
								nk[k] = (e == 0) == neqTrue
								walk(b.Succs[e], 0, nk, trail)
							}
							return
						}
					}
					for _, sx := range b.Succs {
						walk(sx, 0, known, trail)
					}
				}
				walk(s1.Block(), instrIndex(s1)+1, known, nil)
				desc := "a callback that replaces State.Context by a context without deadline installs another one before it returns"
				if bad != nil {
					r.Fail("C09.R8", ssaFuncName(fn), desc, c.Pos(instrPos(bad.exit)), "the callback returns with the deadline-free context still installed (the restore is missing on this path, e.g. it is conditional on the terminal while the replacement is not): everything evaluated after the call ignores the time limit", c.tracePath(bad)...)
				} else {
					r.Ok("C09.R8", ssaFuncName(fn), desc, c.Pos(s1.Pos()))
				}
			})
		}
		if n8 < 2 {
			r.Undecided("C09.R8: only %d deadline-free context installations found in package extensions (read and run expected)", n8)
		}
		r.Floor("C09.R8", 2)
	}
	if nLoops < 2 {
		r.Undecided("C09.R3: only %d program-bounded loops found", nLoops)
	}
	if nAllocs < 4 {
		r.Undecided("C09.R4: only %d program-sized allocations found", nAllocs)
	}
}

func findMul(v ssa.Value) *ssa.BinOp {
	for i := 0; i < 4; i++ {
		switch x := v.(type) {
		case *ssa.Convert:
			v = x.X
		case *ssa.BinOp:
			if x.Op == token.MUL {
				return x
			}
			if x.Op == token.QUO {
				v = x.X
				continue
			}
			return nil
		default:
			return nil
		}
	}
	return nil
}

// productBoundsCount: mul = a * count where a >= 1 is established (a != 0 / a > 0 facts on a length).
func productBoundsCount(mul *ssa.BinOp, count ssa.Value, b *ssa.BasicBlock) bool {
	other := mul.X
	derivesFrom := func(v, w ssa.Value) bool {
		for i := 0; i < 4; i++ {
			if v == w {
				return true
			}
			cv, ok := v.(*ssa.Convert)
			if !ok {
				return false
			}
			v = cv.X
		}
		return false
	}
	if derivesFrom(mul.X, count) || sameExpr(mul.X, count) {
		other = mul.Y
	} else if !(derivesFrom(mul.Y, count) || sameExpr(mul.Y, count)) {
		return false
	}
	for _, f := range relFactsAt(other, b) {
		if k, ok := constInt(f.other); ok {
			switch {
			case f.op == token.NEQ && k == 0, f.op == token.GTR && k >= 0, f.op == token.GEQ && k >= 1:
				return true
			}
		}
	}
	// facts on another len() call of the same operand
	if call, ok := other.(*ssa.Call); ok {
		for _, cc := range controlling(b) {
			if bin, ok := cc.Cond.(*ssa.BinOp); ok {
				if oc, ok := bin.X.(*ssa.Call); ok && sameExpr(oc, call) {
					if k, ok := constInt(bin.Y); ok && k == 0 {
						op := bin.Op
						if cc.Edge == 1 {
							op = negOp[op]
						}
						if op == token.NEQ || op == token.GTR {
							return true
						}
					}
				}
			}
		}
	}
	return false
}

// overflowChecked: a dominating test involving a division or a Max constant guards the product.
func overflowChecked(mul *ssa.BinOp, b *ssa.BasicBlock) bool {
	for _, cc := range controlling(b) {
		bin, ok := cc.Cond.(*ssa.BinOp)
		if !ok {
			continue
		}
		var involves func(v ssa.Value, d int) bool
		involves = func(v ssa.Value, d int) bool {
			if d > 4 {
				return false
			}
			switch x := v.(type) {
			case *ssa.BinOp:
				if x.Op == token.QUO {
					return true
				}
				return involves(x.X, d+1) || involves(x.Y, d+1)
			case *ssa.Convert:
				return involves(x.X, d+1)
			case *ssa.Const:
				if k, ok := constInt(x); ok && (k >= 1<<31) {
					return true
				}
			}
			return false
		}
		if involves(bin.X, 0) || involves(bin.Y, 0) {
			return true
		}
	}
	return false
}

func isStringValueField(v ssa.Value) bool {
	f, ok := v.(*ssa.Field)
	if !ok {
		return false
	}
	n, ok := f.X.Type().(*types.Named)
	return ok && n.Obj().Name() == "String" && isModulePkg(n.Obj().Pkg())
}

func mentionsLenOf(v ssa.Value, s ssa.Value, d int) bool {
	if d > 6 {
		return false
	}
	switch x := v.(type) {
	case *ssa.Call:
		if bi, ok := x.Common().Value.(*ssa.Builtin); ok && bi.Name() == "len" && (x.Common().Args[0] == s || sameExpr(x.Common().Args[0], s)) {
			return true
		}
	case *ssa.BinOp:
		return mentionsLenOf(x.X, s, d+1) || mentionsLenOf(x.Y, s, d+1)
	case *ssa.Convert:
		return mentionsLenOf(x.X, s, d+1)
	}
	return false
}

func init() {
	register("C09", &propDef{
		explain: "Guard-placement rules decided on code shape: the deadline test is the first effect of every evaluation step and sleep waits on the state's context; the depth guard brackets evalInternal inside Eval and function bodies go through Eval; every other recursive cycle reachable from program text is enumerated (they are bounded only by source/data nesting: known findings; a new one is a violation); Go loops whose trip count a program chooses re-enter the evaluator each iteration or are bounded by a size that passed the memory guard; program-sized allocations, string concatenation and repetition are dominated by the guard, guarded products are overflow-checked and SizeOk rejects negative sizes; EvalOne recovers, resets and installs a per-input deadline. Wall-clock and RSS numbers are not decided. Also: object.FreeMemory computes its result from a SetMemoryLimit(-1) query and a ReadMemStats reading made by that call, never from memoised package-level state. Also: strings.Join guards include the separator; library calls whose result is not linear in one operand (regexp ReplaceAll*, strings.Replace*, Sprintf with a program-chosen format) are dominated by a guard computed from their operands; a state created next to a running one inherits its Context.",
		assume:  []string{"the Go runtime honours GOMEMLIMIT approximately; the guard's adequacy as a number (256-object free pass, ObjectSize) is not judged", "allocations proportional to data that already exists (copies, Modify, JSON) are not obligations"},
		run:     runC09,
	})
}

// programChosenFormat: the format string is not a constant here, nor a parameter that every caller binds
// to a constant (Errorf-style wrappers).
func (c *Ctx) programChosenFormat(v ssa.Value, depth int) bool {
	if _, isK := v.(*ssa.Const); isK {
		return false
	}
	if p, ok := v.(*ssa.Parameter); ok && depth < 3 {
		sites, ok := c.argsAtCallSites(p)
		if !ok || len(sites) == 0 {
			return false // no caller in the module: not driven by program text
		}
		for _, s := range sites {
			if c.programChosenFormat(s.v, depth+1) {
				return true
			}
		}
		return false
	}
	if phi, ok := v.(*ssa.Phi); ok && depth < 3 {
		for _, e := range phi.Edges {
			if c.programChosenFormat(e, depth+1) {
				return true
			}
		}
		return false
	}
	return true
}

// expiredContextArm: the block of evalInternal entered when the input's context has expired, found as the true
// edge of `s.Context.Err() != nil` under `s.Context != nil`, or as the true edge of a predicate method of the
// State that is exactly that test. first reports whether that test is the first thing evalInternal does (no
// other call before it).
func (c *Ctx) expiredContextArm(fn *ssa.Function) (arm *ssa.BasicBlock, first bool) {
	stateT := c.TypeNamed("eval", "State")
	isCtxLoad := func(v ssa.Value) bool {
		ld, ok := v.(*ssa.UnOp)
		return ok && isFieldAddrOf(ld.X, stateT, "Context")
	}
	isErrTest := func(v ssa.Value) bool {
		bin, ok := v.(*ssa.BinOp)
		if !ok || bin.Op != token.NEQ || !isNilConst(bin.Y) {
			return false
		}
		call, ok := bin.X.(*ssa.Call)
		return ok && call.Common().IsInvoke() && call.Common().Method.Name() == "Err" && isCtxLoad(call.Common().Value)
	}
	isNilTest := func(v ssa.Value) bool {
		bin, ok := v.(*ssa.BinOp)
		return ok && bin.Op == token.NEQ && isNilConst(bin.Y) && isCtxLoad(bin.X)
	}
	// predicate: a method of the State whose only call is Context.Err() and which returns the conjunction
	isPredicate := func(p *ssa.Function) bool {
		if p == nil || len(p.Blocks) == 0 || len(p.Params) != 1 || p.Signature.Results().Len() != 1 {
			return false
		}
		nilT, errT, other := false, false, false
		eachInstr(p, func(in ssa.Instruction) {
			switch x := in.(type) {
			case *ssa.BinOp:
				if isNilTest(x) {
					nilT = true
				} else if isErrTest(x) {
					errT = true
				} else {
					other = true
				}
			case *ssa.Call:
				if !(x.Common().IsInvoke() && x.Common().Method.Name() == "Err") {
					other = true
				}
			case *ssa.Store, *ssa.MapUpdate, *ssa.Go, *ssa.Defer, *ssa.Send:
				other = true
			}
		})
		return nilT && errT && !other
	}
	entry := fn.Blocks[0]
	ifi, ok := entry.Instrs[len(entry.Instrs)-1].(*ssa.If)
	if !ok {
		return nil, false
	}
	calls := 0
	for _, in := range entry.Instrs {
		if _, isCall := in.(ssa.CallInstruction); isCall {
			calls++
		}
	}
	if isNilTest(ifi.Cond) {
		tb := entry.Succs[0]
		if ifi2, ok := tb.Instrs[len(tb.Instrs)-1].(*ssa.If); ok && isErrTest(ifi2.Cond) {
			return tb.Succs[0], calls == 0
		}
		return nil, calls == 0
	}
	if call, ok := ifi.Cond.(*ssa.Call); ok && isPredicate(call.Common().StaticCallee()) && len(call.Common().Args) == 1 && call.Common().Args[0] == ssa.Value(fn.Params[0]) {
		return entry.Succs[0], calls == 1
	}
	return nil, false
}
