package main

// streval: evaluation of branch conditions when one call result is fixed to a concrete string (or integer):
// string and integer constants, comparisons, +, len, indexing and slicing with evaluable bounds,
// strings.HasSuffix / HasPrefix / Contains, !, conversions, && / || phis resolved by the edge taken. Used to
// walk a function under that assumption and see which blocks can still execute.

import (
	"go/constant"
	"go/token"
	"strings"

	"golang.org/x/tools/go/ssa"
)

func (c *Ctx) evalAny(v ssa.Value, fixed ssa.Value, val any, depth int) (any, bool) {
	if v == fixed {
		return val, true
	}
	if depth > 12 {
		return nil, false
	}
	b2i := func(t bool) (any, bool) {
		if t {
			return int64(1), true
		}
		return int64(0), true
	}
	switch x := v.(type) {
	case *ssa.Const:
		if x.Value == nil {
			return nil, false
		}
		switch x.Value.Kind() {
		case constant.Bool:
			return b2i(constant.BoolVal(x.Value))
		case constant.Int:
			i, ok := constant.Int64Val(x.Value)
			return i, ok
		case constant.String:
			return constant.StringVal(x.Value), true
		}
	case *ssa.Convert:
		return c.evalAny(x.X, fixed, val, depth+1)
	case *ssa.ChangeType:
		return c.evalAny(x.X, fixed, val, depth+1)
	case *ssa.UnOp:
		if x.Op == token.NOT {
			if a, ok := c.evalAny(x.X, fixed, val, depth+1); ok {
				if i, isI := a.(int64); isI {
					return 1 - i, true
				}
			}
		}
	case *ssa.BinOp:
		l, ok1 := c.evalAny(x.X, fixed, val, depth+1)
		r, ok2 := c.evalAny(x.Y, fixed, val, depth+1)
		if !ok1 || !ok2 {
			return nil, false
		}
		if ls, ok := l.(string); ok {
			rs, ok := r.(string)
			if !ok {
				return nil, false
			}
			switch x.Op {
			case token.EQL:
				return b2i(ls == rs)
			case token.NEQ:
				return b2i(ls != rs)
			case token.ADD:
				return ls + rs, true
			}
			return nil, false
		}
		li, ok1 := l.(int64)
		ri, ok2 := r.(int64)
		if !ok1 || !ok2 {
			return nil, false
		}
		switch x.Op {
		case token.EQL:
			return b2i(li == ri)
		case token.NEQ:
			return b2i(li != ri)
		case token.LSS:
			return b2i(li < ri)
		case token.LEQ:
			return b2i(li <= ri)
		case token.GTR:
			return b2i(li > ri)
		case token.GEQ:
			return b2i(li >= ri)
		case token.ADD:
			return li + ri, true
		case token.SUB:
			return li - ri, true
		}
	case *ssa.Call:
		if bi, ok := x.Common().Value.(*ssa.Builtin); ok && bi.Name() == "len" {
			if a, ok := c.evalAny(x.Common().Args[0], fixed, val, depth+1); ok {
				if s, isS := a.(string); isS {
					return int64(len(s)), true
				}
			}
			return nil, false
		}
		name := stdName(x)
		if name == "strings.HasSuffix" || name == "strings.HasPrefix" || name == "strings.Contains" {
			a, ok1 := c.evalAny(x.Common().Args[0], fixed, val, depth+1)
			b, ok2 := c.evalAny(x.Common().Args[1], fixed, val, depth+1)
			as, ok3 := a.(string)
			bs, ok4 := b.(string)
			if !ok1 || !ok2 || !ok3 || !ok4 {
				return nil, false
			}
			switch name {
			case "strings.HasSuffix":
				return b2i(strings.HasSuffix(as, bs))
			case "strings.HasPrefix":
				return b2i(strings.HasPrefix(as, bs))
			default:
				return b2i(strings.Contains(as, bs))
			}
		}
	case *ssa.Slice:
		a, ok := c.evalAny(x.X, fixed, val, depth+1)
		s, isS := a.(string)
		if !ok || !isS {
			return nil, false
		}
		lo, hi := int64(0), int64(len(s))
		if x.Low != nil {
			l, ok := c.evalAny(x.Low, fixed, val, depth+1)
			li, isI := l.(int64)
			if !ok || !isI {
				return nil, false
			}
			lo = li
		}
		if x.High != nil {
			h, ok := c.evalAny(x.High, fixed, val, depth+1)
			hi2, isI := h.(int64)
			if !ok || !isI {
				return nil, false
			}
			hi = hi2
		}
		if lo < 0 || hi > int64(len(s)) || lo > hi {
			return nil, false
		}
		return s[lo:hi], true
	case *ssa.Index:
		a, ok1 := c.evalAny(x.X, fixed, val, depth+1)
		i, ok2 := c.evalAny(x.Index, fixed, val, depth+1)
		s, isS := a.(string)
		ii, isI := i.(int64)
		if ok1 && ok2 && isS && isI && ii >= 0 && ii < int64(len(s)) {
			return int64(s[ii]), true
		}
	}
	return nil, false
}

// blocksReachableWith: the blocks of fn that can execute after `fixed` produced val (conditions that evaluate
// under that assumption are followed one way only).
func (c *Ctx) blocksReachableWith(fn *ssa.Function, fixed ssa.Instruction, val any) map[*ssa.BasicBlock]bool {
	fv, _ := fixed.(ssa.Value)
	type state struct{ blk, from *ssa.BasicBlock }
	seen := map[state]bool{}
	reach := map[*ssa.BasicBlock]bool{}
	var walk func(blk, from *ssa.BasicBlock)
	walk = func(blk, from *ssa.BasicBlock) {
		st := state{blk, from}
		if seen[st] {
			return
		}
		seen[st] = true
		reach[blk] = true
		last := blk.Instrs[len(blk.Instrs)-1]
		if ifi, ok := last.(*ssa.If); ok {
			cond := ifi.Cond
			if phi, ok := cond.(*ssa.Phi); ok && phi.Block() == blk && from != nil {
				for i, p := range blk.Preds {
					if p == from {
						cond = phi.Edges[i]
					}
				}
			}
			if v, ok := c.evalAny(cond, fv, val, 0); ok {
				if i, isI := v.(int64); isI {
					if i != 0 {
						walk(blk.Succs[0], blk)
					} else {
						walk(blk.Succs[1], blk)
					}
					return
				}
			}
		}
		for _, s := range blk.Succs {
			walk(s, blk)
		}
	}
	walk(fixed.Block(), nil)
	return reach
}

// checkClosedCommentTest: rule C15.R5.
//
// parser.parseComment decides from the token text whether a block comment was closed; when it was not it
// raises the continuation request. With the literal fixed to each sample, the blocks that can execute are
// computed: for the unclosed samples (/*, /*/, /* a *, /* a) the store continuationNeeded = true must be
// reachable and the return of the comment node must not; for the closed ones (/**/, /* a */, /***/) the other
// way round.
func (c *Ctx) checkClosedCommentTest(r *Report, rule string) {
	fn := c.SSAFn(c.Fn("parser", "Parser.parseComment"))
	parT := c.TypeNamed("parser", "Parser")
	var lit *ssa.Call
	eachInstr(fn, func(in ssa.Instruction) {
		if call, ok := in.(*ssa.Call); ok && lit == nil {
			if callee := call.Common().StaticCallee(); callee != nil && callee.Name() == "Literal" {
				lit = call
			}
		}
	})
	if lit == nil {
		r.Undecided("%s: no Literal() call found in parseComment", rule)
		return
	}
	fname := ssaFuncName(fn)
	for _, smp := range []struct {
		text   string
		closed bool
	}{{"/*", false}, {"/*/", false}, {"/* a *", false}, {"/* a", false}, {"/**/", true}, {"/* a */", true}, {"/***/", true}} {
		reach := c.blocksReachableWith(fn, lit, smp.text)
		asks, returnsNode := false, false
		for b := range reach {
			for _, in := range b.Instrs {
				if st, ok := in.(*ssa.Store); ok && isFieldAddrOf(st.Addr, parT, "continuationNeeded") {
					asks = true
				}
				if ret, ok := in.(*ssa.Return); ok && len(ret.Results) == 1 && !isNilConst(ret.Results[0]) {
					if _, isK := ret.Results[0].(*ssa.Const); !isK {
						returnsNode = true
					}
				}
			}
		}
		desc := "block comment text " + smp.text + " is judged "
		if smp.closed {
			desc += "closed"
			r.Check(returnsNode && !asks, rule, fname, desc, c.Pos(fn.Pos()), "a closed block comment raises the continuation request (or yields no node)")
		} else {
			desc += "open"
			r.Check(asks && !returnsNode, rule, fname, desc, c.Pos(fn.Pos()), "with this token text parseComment can return the comment node without asking for more input: a block comment that was only opened is accepted as complete in line mode")
		}
	}
}
