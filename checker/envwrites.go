package main

// envwrites: the two counters every write to a binding has to keep.
//
//	C14.R7  numSet, the change counter auto-save consults ("Nothing changed, not auto saving"): every
//	        write or delete on an Environment's store map, other than the installation of a Reference
//	        (an alias, not a change of what a name holds), is accompanied on every path through it by
//	        an increment of numSet of that same environment under its depth==0 test.
//	C04.R2  getMiss, the purity counter of memoization: a write to the store of an environment reached
//	        through a Reference (RefEnv: the variable lives outside of the current frame) is preceded by
//	        an increment of getMiss, unconditionally on the path from where RefEnv is read.

import (
	"go/constant"
	"go/token"
	"go/types"
	"strings"

	"golang.org/x/tools/go/ssa"
)

type envStoreWrite struct {
	fn    *ssa.Function
	at    ssa.Instruction
	owner ssa.Value // the *Environment whose store is written
	val   ssa.Value // nil for delete
}

func (c *Ctx) envStoreWrites() []envStoreWrite {
	envT := c.TypeNamed("object", "Environment")
	storeIdx := fieldIndex(envT, "store")
	var res []envStoreWrite
	ownerOf := func(m ssa.Value) ssa.Value {
		ld, ok := m.(*ssa.UnOp)
		if !ok || ld.Op != token.MUL {
			return nil
		}
		fa, ok := ld.X.(*ssa.FieldAddr)
		if !ok || fa.Field != storeIdx || namedStruct(fa.X.Type()) == nil || namedStruct(fa.X.Type()).Obj() != envT.Obj() {
			return nil
		}
		return fa.X
	}
	for _, fn := range c.ModuleSSAFuncs() {
		if fn.Pkg == nil || shortPkg(fn.Pkg.Pkg) != "object" {
			continue
		}
		eachInstr(fn, func(in ssa.Instruction) {
			switch x := in.(type) {
			case *ssa.MapUpdate:
				if o := ownerOf(x.Map); o != nil {
					res = append(res, envStoreWrite{fn, x, o, x.Value})
				}
			case *ssa.Call:
				if bi, ok := x.Common().Value.(*ssa.Builtin); ok && bi.Name() == "delete" {
					if o := ownerOf(x.Common().Args[0]); o != nil {
						res = append(res, envStoreWrite{fn, x, o, nil})
					}
				}
			}
		})
	}
	return res
}

func (c *Ctx) checkChangeCounter(r *Report, rule string) {
	envT := c.TypeNamed("object", "Environment")
	refT := c.TypeNamed("object", "Reference")
	depthIdx := fieldIndex(envT, "depth")
	if fieldIndex(envT, "numSet") < 0 || depthIdx < 0 {
		r.Undecided("%s: Environment.numSet / depth not found", rule)
		return
	}
	isIncrOf := func(in ssa.Instruction, field string, owner ssa.Value) bool {
		st, ok := in.(*ssa.Store)
		if !ok || !isFieldAddrOf(st.Addr, envT, field) || !sameValue(st.Addr.(*ssa.FieldAddr).X, owner) {
			return false
		}
		add, ok := st.Val.(*ssa.BinOp)
		if !ok || add.Op != token.ADD {
			return false
		}
		k, ok := constInt(add.Y)
		return ok && k > 0
	}
	writes := c.envStoreWrites()
	counts := map[string]int{}
	n := 0
	for _, w := range writes {
		if w.val != nil {
			if mi, ok := w.val.(*ssa.MakeInterface); ok && types.Identical(mi.X.Type(), refT) {
				continue // installing an alias
			}
		}
		n++
		fname := ssaFuncName(w.fn)
		counts[fname]++
		desc := "store write advances numSet at top level"
		if counts[fname] > 1 {
			desc += " #" + itoa(counts[fname])
		}
		// the guarded increment: an If on owner.depth == 0 whose true successor increments owner.numSet,
		// or a call on the owner of a method that is nothing but that (every path from its entry passes the
		// guarded increment of its receiver)
		var sat func(in ssa.Instruction) bool
		sat = func(in ssa.Instruction) bool {
			if call, ok := in.(*ssa.Call); ok {
				callee := call.Common().StaticCallee()
				if callee == nil || !isModuleSSA(callee) || len(callee.Params) == 0 || len(call.Common().Args) == 0 || !sameValue(call.Common().Args[0], w.owner) {
					return false
				}
				recv := callee.Params[0]
				inner := func(x ssa.Instruction) bool {
					ifi, ok := x.(*ssa.If)
					if !ok {
						return false
					}
					bin, ok := ifi.Cond.(*ssa.BinOp)
					if !ok || bin.Op != token.EQL {
						return false
					}
					if k, ok := constInt(bin.Y); !ok || k != 0 {
						return false
					}
					ld, ok := bin.X.(*ssa.UnOp)
					if !ok || ld.Op != token.MUL || !isFieldAddrOf(ld.X, envT, "depth") || ld.X.(*ssa.FieldAddr).X != ssa.Value(recv) {
						return false
					}
					for _, y := range ifi.Block().Succs[0].Instrs {
						if isIncrOf(y, "numSet", recv) {
							return true
						}
					}
					return false
				}
				return mustPassFromEntry(callee, inner, isReturn) == nil
			}
			ifi, ok := in.(*ssa.If)
			if !ok {
				return false
			}
			bin, ok := ifi.Cond.(*ssa.BinOp)
			if !ok || bin.Op != token.EQL {
				return false
			}
			if k, ok := constInt(bin.Y); !ok || k != 0 {
				return false
			}
			ld, ok := bin.X.(*ssa.UnOp)
			if !ok || ld.Op != token.MUL || !isFieldAddrOf(ld.X, envT, "depth") || !sameValue(ld.X.(*ssa.FieldAddr).X, w.owner) {
				return false
			}
			for _, x := range ifi.Block().Succs[0].Instrs {
				if isIncrOf(x, "numSet", w.owner) {
					return true
				}
			}
			return false
		}
		before := false
		eachInstr(w.fn, func(in ssa.Instruction) {
			if sat(in) && instrDominates(in, w.at) {
				before = true
			}
		})
		ok := before
		if !ok {
			ok = mustPassBeforeExit(w.at, sat) == nil
		}
		if ok {
			r.Ok(rule, fname, desc, c.Pos(w.at.Pos()))
		} else {
			r.Fail(rule, fname, desc, c.Pos(w.at.Pos()), "a binding of an environment is written (or deleted) and, on some path through this write, numSet of that environment is not advanced under its depth==0 test: when it is the top level environment, auto-save sees \"nothing changed\" and the change is lost at exit")
		}
	}
	if n < 4 {
		r.Undecided("%s: only %d writes to Environment.store found (create, update, Delete, SetNoChecks expected)", rule, n)
	}
	r.Floor(rule, 4)
}

func (c *Ctx) checkOuterWritesAreMisses(r *Report, rule string) {
	envT := c.TypeNamed("object", "Environment")
	refT := c.TypeNamed("object", "Reference")
	refEnvIdx := fieldIndex(refT, "RefEnv")
	if refEnvIdx < 0 {
		r.Undecided("%s: Reference.RefEnv not found", rule)
		return
	}
	isMissIncr := func(in ssa.Instruction) bool {
		st, ok := in.(*ssa.Store)
		if !ok || !isFieldAddrOf(st.Addr, envT, "getMiss") {
			return false
		}
		add, ok := st.Val.(*ssa.BinOp)
		if !ok || add.Op != token.ADD {
			return false
		}
		k, ok := constInt(add.Y)
		return ok && k > 0
	}
	// the RefEnv reads an owner value derives from
	var refEnvReads func(v ssa.Value, seen map[ssa.Value]bool) []ssa.Instruction
	refEnvReads = func(v ssa.Value, seen map[ssa.Value]bool) []ssa.Instruction {
		if seen[v] {
			return nil
		}
		seen[v] = true
		switch x := v.(type) {
		case *ssa.Field:
			if n := namedStruct(x.X.Type()); n != nil && n.Obj() == refT.Obj() && x.Field == refEnvIdx {
				return []ssa.Instruction{x}
			}
		case *ssa.UnOp:
			if fa, ok := x.X.(*ssa.FieldAddr); ok && x.Op == token.MUL {
				if n := namedStruct(fa.X.Type()); n != nil && n.Obj() == refT.Obj() && fa.Field == refEnvIdx {
					return []ssa.Instruction{x}
				}
			}
		case *ssa.Phi:
			var res []ssa.Instruction
			for _, e := range x.Edges {
				res = append(res, refEnvReads(e, seen)...)
			}
			return res
		}
		return nil
	}
	n := 0
	counts := map[string]int{}
	for _, w := range c.envStoreWrites() {
		if w.val == nil {
			continue
		}
		reads := refEnvReads(w.owner, map[ssa.Value]bool{})
		if len(reads) == 0 {
			continue
		}
		n++
		fname := ssaFuncName(w.fn)
		counts[fname]++
		desc := "a write through a Reference counts as a miss"
		if counts[fname] > 1 {
			desc += " #" + itoa(counts[fname])
		}
		good := true
		for _, rd := range reads {
			dom := false
			eachInstr(w.fn, func(in ssa.Instruction) {
				if isMissIncr(in) && (instrDominates(in, rd) || in.Block() == rd.Block()) {
					dom = true
				}
			})
			if dom {
				continue
			}
			target := func(in ssa.Instruction) bool { return in == w.at }
			if mustPassBefore(rd, isMissIncr, target) != nil {
				good = false
			}
		}
		if good {
			r.Ok(rule, fname, desc, c.Pos(w.at.Pos()))
		} else {
			r.Fail(rule, fname, desc, c.Pos(w.at.Pos()), "the store of the environment a Reference points to (a variable outside of the current frame) is written and no increment of getMiss lies on the path from where RefEnv is read: a function whose effect is this write is memoized and the write skipped on a hit (makeRef and Get do not count variables that hold a function)")
		}
	}
	if n < 2 {
		r.Undecided("%s: only %d writes through a Reference found (update and SetNoChecks expected)", rule, n)
	}
}

// checkSaveIsGlobal: rule C14.R9.
//
// What is saved is the global scope whatever frame save() is called from: State.SaveGlobals hands over the
// current environment (a function's frame when save() runs inside one), so in Environment.SaveGlobals (and the
// helpers of its package it hands the environment to) every read of an environment's store is on an
// environment known to be the outermost one: dominated by the `outer == nil` edge of a test on that very
// value (the exit of the walk `for e.outer != nil { e = e.outer }`).
func (c *Ctx) checkSaveIsGlobal(r *Report, rule string) {
	envT := c.TypeNamed("object", "Environment")
	storeIdx, outerIdx := fieldIndex(envT, "store"), fieldIndex(envT, "outer")
	entry := c.SSAFn(c.Fn("object", "Environment.SaveGlobals"))
	if storeIdx < 0 || outerIdx < 0 || entry == nil {
		r.Undecided("%s: Environment.store / outer / SaveGlobals not found", rule)
		return
	}
	n := 0
	helpers := c.localHelpers(entry, 2)
	inSet := map[*ssa.Function]bool{}
	for _, h := range helpers {
		inSet[h] = true
	}
	// rootKnown: where block b executes, environment v is known to have no outer one
	var rootKnown func(v ssa.Value, b *ssa.BasicBlock, depth int) bool
	rootKnown = func(v ssa.Value, b *ssa.BasicBlock, depth int) bool {
		for _, cc := range controlling(b) {
			bin, ok := cc.Cond.(*ssa.BinOp)
			if !ok || (bin.Op != token.EQL && bin.Op != token.NEQ) {
				continue
			}
			side := bin.X
			if isNilConst(bin.X) {
				side = bin.Y
			} else if !isNilConst(bin.Y) {
				continue
			}
			ld, ok := side.(*ssa.UnOp)
			if !ok {
				continue
			}
			ofa, ok := ld.X.(*ssa.FieldAddr)
			if !ok || ofa.Field != outerIdx || ofa.X != v {
				continue
			}
			if (bin.Op == token.EQL && cc.Edge == 0) || (bin.Op == token.NEQ && cc.Edge == 1) {
				return true
			}
		}
		// the environment is a parameter of a helper: known at every call made under SaveGlobals
		if p, ok := v.(*ssa.Parameter); ok && depth < 2 && p.Parent() != entry {
			idx := paramIndex(p.Parent(), p)
			sites := 0
			for _, h := range helpers {
				for _, in := range allCallsTo(h, p.Parent()) {
					sites++
					if idx >= len(in.Common().Args) || !rootKnown(in.Common().Args[idx], in.Block(), depth+1) {
						return false
					}
				}
			}
			return sites > 0
		}
		return false
	}
	for _, fn := range helpers {
		k := 0
		eachInstr(fn, func(in ssa.Instruction) {
			fa, ok := in.(*ssa.FieldAddr)
			if !ok || fa.Field != storeIdx || namedStruct(fa.X.Type()) == nil || namedStruct(fa.X.Type()).Obj() != envT.Obj() {
				return
			}
			n++
			k++
			root := rootKnown(fa.X, fa.Block(), 0)
			desc := "the store that is saved is the outermost environment's"
			if k > 1 {
				desc += " #" + itoa(k)
			}
			r.Check(root, rule, ssaFuncName(fn), desc, c.Pos(fa.Pos()),
				"SaveGlobals reads the store of an environment that is not known to be the outermost one (no dominating `outer == nil` on that value): save() called inside a function writes that function's frame, so the file has none of the globals and loading it loses the session's state")
		})
	}
	if n == 0 {
		r.Undecided("%s: no read of Environment.store under SaveGlobals", rule)
	}
}

// allCallsTo: the static calls of callee inside fn.
func allCallsTo(fn, callee *ssa.Function) []*ssa.Call {
	var res []*ssa.Call
	eachInstr(fn, func(in ssa.Instruction) {
		if call, ok := in.(*ssa.Call); ok && call.Common().StaticCallee() == callee {
			res = append(res, call)
		}
	})
	return res
}

// checkNamedFormOnlyForOwnName: rule C14.R10.
//
// A line of the state file binds exactly one name. The definition form `func g(...){...}` binds g: under
// SaveGlobals a write whose arguments do not include the key of the binding being saved (the bare Inspect() of
// a named function) is made only where that key was compared with the function's own name. Otherwise an alias
// (h = g) is written as a second definition of g, and h is not in the next session.
func (c *Ctx) checkNamedFormOnlyForOwnName(r *Report, rule string) {
	entry := c.SSAFn(c.Fn("object", "Environment.SaveGlobals"))
	n := 0
	for _, fn := range c.localHelpers(entry, 2) {
		eachInstr(fn, func(in ssa.Instruction) {
			call, ok := in.(*ssa.Call)
			if !ok {
				return
			}
			obj := calleeObj(call)
			if obj == nil || obj.Pkg() == nil || obj.Pkg().Path() != "fmt" || obj.Name() != "Fprintf" || len(call.Common().Args) < 2 {
				return
			}
			k, ok := call.Common().Args[1].(*ssa.Const)
			if !ok || k.Value == nil || k.Value.Kind() != constant.String {
				return
			}
			format := constant.StringVal(k.Value)
			if strings.Count(format, "%") != 1 || strings.Contains(format, "=") {
				return // the key=value form (or not a binding line)
			}
			n++
			namesCompared := func(b *ssa.BasicBlock) bool {
				for _, cc := range controlling(b) {
					bin, ok := cc.Cond.(*ssa.BinOp)
					if !ok || !((bin.Op == token.EQL && cc.Edge == 0) || (bin.Op == token.NEQ && cc.Edge == 1)) {
						continue
					}
					bx, okx := bin.X.Type().Underlying().(*types.Basic)
					by, oky := bin.Y.Type().Underlying().(*types.Basic)
					if okx && oky && bx.Kind() == types.String && by.Kind() == types.String {
						if _, isK := bin.X.(*ssa.Const); !isK {
							if _, isK := bin.Y.(*ssa.Const); !isK {
								return true
							}
						}
					}
				}
				return false
			}
			compared := namesCompared(call.Block())
			// the write sits in a helper that only prints the line it is handed: the comparison is made where it is called
			if !compared && fn != entry {
				sites := c.staticCallSites(fn)
				compared = len(sites) > 0
				for _, site := range sites {
					if !namesCompared(site.Block()) {
						compared = false
					}
				}
			}
			r.Check(compared, rule, ssaFuncName(fn), "the definition form is written for the function's own name only", c.Pos(call.Pos()),
				"a line without `name=` (the bare text of a named function) is written for a binding whose key was not compared with the function's name: an alias (func g(a){a+1}; h=g) is saved as a second `func g` line and h is missing after the reload")
		})
	}
	if n == 0 {
		r.OkWhy(rule, ssaFuncName(entry), "every line is written as name=value", c.Pos(entry.Pos()), "no bare definition form")
	}
}

// checkMissChargedToReceiver: part of rule C04.R2.
//
// A miss has to be seen by the call in progress: applyFunction compares the counter of the callee's own frame
// before and after the body. Every increment of Environment.getMiss in package object is therefore made on the
// receiver of the method it is in (the frame the access was made in), never on another environment the method
// got to (the frame that owns the variable: nobody compares that counter around this call).
func (c *Ctx) checkMissChargedToReceiver(r *Report, rule string) {
	envT := c.TypeNamed("object", "Environment")
	n := 0
	for _, fn := range c.ModuleSSAFuncs() {
		if fn.Pkg == nil || shortPkg(fn.Pkg.Pkg) != "object" || len(fn.Params) == 0 {
			continue
		}
		k := 0
		eachInstr(fn, func(in ssa.Instruction) {
			st, ok := in.(*ssa.Store)
			if !ok || !isFieldAddrOf(st.Addr, envT, "getMiss") {
				return
			}
			add, ok := st.Val.(*ssa.BinOp)
			if !ok || add.Op != token.ADD {
				return
			}
			n++
			k++
			base := st.Addr.(*ssa.FieldAddr).X
			desc := "the miss is charged to the frame the access is made in"
			if k > 1 {
				desc += " #" + itoa(k)
			}
			r.Check(base == ssa.Value(fn.Params[0]), rule, ssaFuncName(fn), desc, c.Pos(st.Pos()),
				"the miss counter that is incremented is not the receiver's (the method moved on to another environment first, e.g. the one a reference points to): applyFunction compares the counter of the callee's own frame around the body, so this access goes unnoticed and a call that wrote an outer variable is memoized")
		})
	}
	if n < 3 {
		r.Undecided("%s: only %d miss increments found in package object", rule, n)
	}
}

// checkAliasKeepsNameOnlyIfCurrent: rule C14.R12.
//
// `h=func y(..){..}` defines y too when it is loaded. Under SaveGlobals a named function written for another
// key therefore keeps its name only where the store was asked what that name denotes now (a lookup of the
// environment's store by the function's name precedes the write on every path); otherwise an alias of a
// function that was redefined or deleted brings the old definition back on load.
func (c *Ctx) checkAliasKeepsNameOnlyIfCurrent(r *Report, rule string) {
	entry := c.SSAFn(c.Fn("object", "Environment.SaveGlobals"))
	envT := c.TypeNamed("object", "Environment")
	storeIdx := fieldIndex(envT, "store")
	fnT := c.TypeNamed("object", "Function")
	nameIdx := fieldIndex(fnT, "Name")
	n := 0
	for _, fn := range c.localHelpers(entry, 2) {
		// stores that detach the name (f.Name = nil) and lookups of the store
		var detach, lookups []ssa.Instruction
		eachInstr(fn, func(in ssa.Instruction) {
			switch x := in.(type) {
			case *ssa.Store:
				if fa, ok := x.Addr.(*ssa.FieldAddr); ok && fa.Field == nameIdx && namedStruct(fa.X.Type()) != nil && namedStruct(fa.X.Type()).Obj() == fnT.Obj() && isNilConst(x.Val) {
					detach = append(detach, x)
				}
			case *ssa.Lookup:
				if ld, ok := x.X.(*ssa.UnOp); ok {
					if fa, ok := ld.X.(*ssa.FieldAddr); ok && fa.Field == storeIdx {
						if _, isCall := stripToCall(x.Index); isCall {
							lookups = append(lookups, x)
						}
					}
				}
			}
		})
		if len(detach) == 0 && len(lookups) == 0 {
			continue
		}
		n++
		r.Check(len(detach) > 0 && len(lookups) > 0, rule, ssaFuncName(fn), "an alias keeps the function's name only if the name still denotes it", c.Pos(fn.Pos()),
			"SaveGlobals writes a named function under another key without asking what the name denotes now (no lookup of the store by the function's name, or no path that drops the name): func y(a){a}; z=y; func y(a){a+1} is saved with z=func y(a){a}, and loading that line brings the old y back")
	}
	if n == 0 {
		r.Fail(rule, ssaFuncName(entry), "an alias keeps the function's name only if the name still denotes it", c.Pos(entry.Pos()),
			"SaveGlobals never looks up what a function's own name denotes: an alias of a function that was redefined or deleted since is saved with the old name, and loading it brings the old definition back")
	}
}

// stripToCall: v is (a conversion of) a call result.
func stripToCall(v ssa.Value) (*ssa.Call, bool) {
	for i := 0; i < 3; i++ {
		switch x := v.(type) {
		case *ssa.Call:
			return x, true
		case *ssa.Convert:
			v = x.X
		case *ssa.ChangeType:
			v = x.X
		default:
			return nil, false
		}
	}
	return nil, false
}
