package main

import (
	"fmt"
	"go/token"
	"go/types"
	"sort"
	"strings"

	"golang.org/x/tools/go/ssa"
)

// fieldIndex returns the index of a named field in a struct type.
func fieldIndex(n *types.Named, name string) int {
	st, ok := n.Underlying().(*types.Struct)
	if !ok {
		return -1
	}
	for i := 0; i < st.NumFields(); i++ {
		if st.Field(i).Name() == name {
			return i
		}
	}
	return -1
}

func isFieldAddrOf(v ssa.Value, n *types.Named, field string) bool {
	fa, ok := v.(*ssa.FieldAddr)
	if !ok {
		return false
	}
	nn := namedStruct(fa.X.Type())
	return nn != nil && nn.Obj() == n.Obj() && fa.Field == fieldIndex(n, field)
}

// classifyCond names the kind of a branch condition (for the purity-detection rules).
func (c *Ctx) classifyCond(cond ssa.Value) string {
	switch x := cond.(type) {
	case *ssa.Extract:
		if x.Index == 1 {
			switch tu := x.Tuple.(type) {
			case *ssa.Lookup:
				return "found"
			case *ssa.TypeAssert:
				return "is:" + typeShort(tu.AssertedType)
			}
		}
	case *ssa.Call:
		if obj := calleeObj(x); obj != nil {
			return "call:" + obj.Name()
		}
	case *ssa.BinOp:
		if x.Op == token.EQL || x.Op == token.NEQ {
			for _, side := range []ssa.Value{x.X, x.Y} {
				if call, ok := side.(*ssa.Call); ok && call.Common().IsInvoke() && call.Common().Method.Name() == "Type" {
					other := x.Y
					if side == x.Y {
						other = x.X
					}
					if k, ok := constInt(other); ok {
						return fmt.Sprintf("tag%s%s", x.Op, c.objectTypeNames()[k])
					}
				}
			}
			if isNilConst(x.X) || isNilConst(x.Y) {
				return "nil" + x.Op.String()
			}
			if _, ok := constString(x.Y); ok {
				return "str" + x.Op.String()
			}
			if _, ok := constString(x.X); ok {
				return "str" + x.Op.String()
			}
		}
	}
	return "other:" + cond.String()
}

func runC04(c *Ctx, r *Report) {
	r.Rule("C04.R1", "cache write gate: every Cache.Set call is confined to the edge where the callee environment's miss counter did not change across the body evaluation and to the edge where the result is not an ERROR; it stores the evaluated result, the same key as the lookup, and the bytes of the buffer installed as s.Out for that evaluation")
	r.Rule("C04.R2", "every source of uncacheability reaches the miss counter: info lookups, stored references and new references to non-constant non-function outer bindings (no other condition may skip the increment), del, DontCache extensions before the callback runs, and propagation of the callee's cantCache flag; TriggerNoCache sets the flag and bumps the counter unconditionally")
	r.Rule("C04.R3", "extension purity: a registration whose callback (call-graph reach cut at interpreter re-entry) touches the OS, the clock, a random source, package-level state mutated at run time, or that carries ClientData, has DontCache=true")
	r.Rule("C04.R5", "what is cached can be handed out again: the cache write is confined to the edge where the result is not a function value (a closure carries the environment of the call that made it), and a container result is not storage that is updated in place (today it is, for the large representations: known finding)")
	r.Rule("C04.R4", "hashability agrees with key equality: every tag Hashable accepts outright maps to Go-comparable concrete types only, and for each composite it accepts every Object-typed component is checked by a recursive Hashable call whose failure returns false")
	r.Rule("C04.R5", "replay on hit: on the hit edge of Cache.Get the cached output bytes are written to the current s.Out before the cached result is returned")

	envT := c.TypeNamed("object", "Environment")
	stateT := c.TypeNamed("eval", "State")
	cacheSet := c.Fn("eval", "Cache.Set")
	cacheGet := c.Fn("eval", "Cache.Get")
	getMisses := c.Fn("object", "Environment.GetMisses")
	cantCache := c.Fn("object", "Environment.CantCache")
	trigger := c.Fn("object", "Environment.TriggerNoCache")
	stateEval := c.Fn("eval", "State.Eval")
	errTag := c.tagConst("ERROR")

	// ---- R1 ----
	nSet := 0
	for _, fn := range c.ModuleSSAFuncs() {
		for _, ci := range callsIn(fn, cacheSet) {
			nSet++
			call := ci.(*ssa.Call)
			fname := ssaFuncName(fn)
			if fn == c.cacheStoreFn() {
				// obligations (and known findings) about the cache store are those of applyFunction, whether or not
				// the part after the lookup was split off into its own method
				fname = ssaFuncName(c.SSAFn(c.Fn("eval", "State.applyFunction")))
			}
			pos := c.Pos(call.Pos())
			args := call.Common().Args // recv, fn, args, result, output
			// (a) miss counter unchanged
			okMiss := false
			var evalCall *ssa.Call
			for _, cc := range controlling(call.Block()) {
				bin, ok := cc.Cond.(*ssa.BinOp)
				if !ok || (bin.Op != token.NEQ && bin.Op != token.EQL) {
					continue
				}
				x, okx := bin.X.(*ssa.Call)
				y, oky := bin.Y.(*ssa.Call)
				if !okx || !oky || !isCallTo(x, getMisses) || !isCallTo(y, getMisses) {
					continue
				}
				wantEdge := 1 // after != before: false edge
				if bin.Op == token.EQL {
					wantEdge = 0
				}
				if cc.Edge != wantEdge {
					continue
				}
				// one before and one after an Eval call
				for _, ec := range callsIn(fn, stateEval) {
					e := ec.(*ssa.Call)
					first, second := x, y
					if instrDominates(y, x) {
						first, second = y, x
					}
					if instrDominates(first, e) && instrDominates(e, second) {
						okMiss = true
						evalCall = e
					}
				}
			}
			r.Check(okMiss, "C04.R1", fname, "Cache.Set confined to the miss-counter-unchanged edge", pos,
				"the result is cached although the body evaluation may have read outer state: Set is not confined to the edge where GetMisses() is equal before and after the body evaluation")
			// (b) not an error, and the cached result is the evaluated one
			if len(args) >= 5 {
				res := args[3]
				r.Check(evalCall != nil && res == ssa.Value(evalCall), "C04.R1", fname, "cached result is the evaluated body result", pos, "the value stored in the cache is not the result of the body evaluation guarded by the miss test")
				r.Check(c.tagExcludedAt(res, errTag, call.Block()), "C04.R1", fname, "Cache.Set confined to the result-is-not-ERROR edge", pos, "an error result can be cached (no dominating Type()==ERROR test on the stored result)")
				// (b') what is cached can be handed out again and again: not a closure (it carries the environment of
				// the call that made it), not the storage of a large container (updated in place by index assignment)
				r.Check(c.tagExcludedAt(res, c.tagConst("FUNC"), call.Block()), "C04.R5", fname, "Cache.Set confined to the result-is-not-a-function edge", pos,
					"a function value can be cached: it holds the environment of the call that made it, so every hit hands out the same captured variables (func mk(){c=0; ()=>{c=c+1;c}}; a=mk(); b=mk() share c)")
				r.Check(c.tagExcludedAt(res, c.tagConst("ARRAY"), call.Block()) && c.tagExcludedAt(res, c.tagConst("MAP"), call.Block()), "C04.R5", fname, "a cached container is not storage that can be updated in place", pos,
					"an array or map result is cached as is: for the large representations (more than 8 elements / 4 pairs) every hit returns the same storage, which index assignment updates in place, so changing one result changes the next call's")
				// (c) same key as the lookup
				sameKey := false
				for _, g := range callsIn(fn, cacheGet) {
					ga := g.Common().Args
					if len(ga) >= 3 && sameValue(ga[1], args[1]) && ga[2] == args[2] {
						sameKey = true
					}
				}
				// the store sits in a function that is handed the key by the one that looked it up
				if p1, ok := args[1].(*ssa.Parameter); ok && !sameKey {
					if p2, ok := args[2].(*ssa.Parameter); ok {
						sites := c.staticCallSites(fn)
						sameKey = len(sites) > 0
						for _, site := range sites {
							found := false
							a1, a2 := site.Common().Args[paramIndex(fn, p1)], site.Common().Args[paramIndex(fn, p2)]
							for _, g := range callsIn(site.Parent(), cacheGet) {
								ga := g.Common().Args
								if len(ga) >= 3 && sameValue(ga[1], a1) && ga[2] == a2 {
									found = true
								}
							}
							if !found {
								sameKey = false
							}
						}
					}
				}
				r.Check(sameKey, "C04.R1", fname, "Cache.Set uses the key of the lookup", pos, "Set is keyed differently from the Get that missed")
				// (d) output = bytes of the buffer installed as s.Out before the evaluation
				r.Check(c.outputIsCapturedBuffer(fn, args[4], evalCall, stateT), "C04.R1", fname, "cached output is the captured buffer", pos, "the output stored with the result is not the content of the buffer that replaced s.Out during the evaluation")
			}
		}
	}
	if nSet == 0 {
		r.Undecided("no call to Cache.Set found")
	}
	// the key list is not written between the lookup and the store
	{
		f := c.containerFresh()
		afn := c.SSAFn(c.Fn("eval", "State.applyFunction"))
		cacheGet, cacheSet := c.Fn("eval", "Cache.Get"), c.Fn("eval", "Cache.Set")
		gets, sets := callsIn(afn, cacheGet), callsIn(afn, cacheSet)
		// the store may sit in a function applyFunction hands the key to (the part after the lookup split off)
		var handOver *ssa.Call // the call, in applyFunction, of the function that stores
		var sfn *ssa.Function
		if len(gets) == 1 && len(sets) == 0 {
			eachInstr(afn, func(in ssa.Instruction) {
				call, ok := in.(*ssa.Call)
				if !ok {
					return
				}
				if h := call.Common().StaticCallee(); h != nil && h.Pkg == afn.Pkg && len(callsIn(h, cacheSet)) == 1 && len(c.staticCallSites(h)) == 1 {
					handOver, sfn = call, h
				}
			})
			if sfn != nil {
				sets = callsIn(sfn, cacheSet)
			}
		}
		if len(gets) != 1 || len(sets) != 1 {
			r.Undecided("C04.R1: expected one Cache.Get and one Cache.Set in applyFunction")
		} else {
			get, set := gets[0].(*ssa.Call), sets[0].(*ssa.Call)
			key := get.Common().Args[2]
			var writers []string
			// segment: the instructions of fn that can run after `from` (nil: from entry) and before `to`, writing `key`
			segment := func(fn *ssa.Function, key ssa.Value, from, to ssa.Instruction) {
				between := func(in ssa.Instruction) bool {
					return (from == nil || reachesInstr(from, in)) && reachesInstr(in, to)
				}
				eachInstr(fn, func(in ssa.Instruction) {
					call, ok := in.(*ssa.Call)
					if !ok || ssa.Instruction(call) == from || ssa.Instruction(call) == to || !between(call) {
						return
					}
					callee := call.Common().StaticCallee()
					if callee == nil {
						return
					}
					for i, a := range call.Common().Args {
						if a != key || i >= len(callee.Params) {
							continue
						}
						if w := f.mutates[callee.Params[i]]; len(w) > 0 {
							var ws []string
							for k := range w {
								ws = append(ws, k)
							}
							sort.Strings(ws)
							writers = append(writers, ssaFuncName(callee)+": "+strings.Join(ws, ", "))
						}
					}
				})
				// direct writes into the list in the function itself
				f.rawWrites(fn, func(in ssa.Instruction, target ssa.Value, desc string) {
					if target == key && between(in) {
						writers = append(writers, fn.Name()+": "+desc)
					}
				})
			}
			if sfn == nil {
				segment(afn, key, get, set)
			} else {
				segment(afn, key, get, handOver)
				// inside the storing function the key is the parameter the list was handed over as
				handed := false
				for i, a := range handOver.Common().Args {
					if a == key && i < len(sfn.Params) {
						handed = true
						segment(sfn, sfn.Params[i], nil, set)
					}
				}
				if !handed {
					writers = append(writers, "the list of the lookup is not the one handed to "+ssaFuncName(sfn))
				}
			}
			r.Check(len(writers) == 0, "C04.R1", ssaFuncName(afn), "the argument list is not written between Cache.Get and Cache.Set", c.Pos(set.Pos()),
				"the list used as the lookup key is written in place before the result is stored under it ("+strings.Join(writers, "; ")+"): the result of f(1,[[4]]) is stored under the key of f(1,[4]) when the variadic spread overwrites the last argument, and the next f(1,[4]) returns it")
		}
	}
	r.Floor("C04.R1", 6)

	// ---- R2 ----
	getMissIdx := fieldIndex(envT, "getMiss")
	cantCacheIdx := fieldIndex(envT, "cantCache")
	if getMissIdx < 0 || cantCacheIdx < 0 {
		undecidedf("Environment.getMiss / cantCache fields not found")
	}
	isMissIncr := func(in ssa.Instruction) bool {
		st, ok := in.(*ssa.Store)
		if !ok || !isFieldAddrOf(st.Addr, envT, "getMiss") {
			return false
		}
		add, ok := st.Val.(*ssa.BinOp)
		if !ok || add.Op != token.ADD {
			return false
		}
		k, ok := constInt(add.Y)
		return ok && k > 0
	}
	// TriggerNoCache
	{
		fn := c.SSAFn(trigger)
		incr, flag := false, false
		eachInstr(fn, func(in ssa.Instruction) {
			if isMissIncr(in) && in.Block() == fn.Blocks[0] {
				incr = true
			}
			if st, ok := in.(*ssa.Store); ok && isFieldAddrOf(st.Addr, envT, "cantCache") && in.Block() == fn.Blocks[0] {
				if k, ok := st.Val.(*ssa.Const); ok && k.Value != nil && k.Value.ExactString() == "true" {
					flag = true
				}
			}
		})
		r.Check(incr, "C04.R2", ssaFuncName(fn), "TriggerNoCache bumps the miss counter unconditionally", c.Pos(fn.Pos()), "TriggerNoCache no longer increments getMiss on every call")
		r.Check(flag, "C04.R2", ssaFuncName(fn), "TriggerNoCache sets cantCache unconditionally", c.Pos(fn.Pos()), "TriggerNoCache no longer sets cantCache=true on every call")
	}
	// increments in Get and makeRef: allowed controlling conditions
	allowed := map[string]map[string]bool{
		"object.(*Environment).makeRef": {"found:0": true, "nil!=:0": true, "call:Constant:1": true, "tag!=FUNC:0": true, "tag==FUNC:1": true},
		"object.(*Environment).Get": {"found:0": true, "is:object.Reference:0": true, "call:Constant:1": true, "tag!=FUNC:0": true, "tag==FUNC:1": true,
			"str==:1": true, "str!=:0": true, "nil!=:1": true, "nil==:0": true, "nil!=:0": true, "nil==:1": true},
	}
	for _, name := range []string{"Environment.makeRef", "Environment.Get"} {
		fn := c.SSAFn(c.Fn("object", name))
		fname := ssaFuncName(fn)
		n := 0
		eachInstr(fn, func(in ssa.Instruction) {
			if !isMissIncr(in) {
				return
			}
			n++
			var extra []string
			for _, cc := range controlling(in.Block()) {
				cls := fmt.Sprintf("%s:%d", c.classifyCond(cc.Cond), cc.Edge)
				if !allowed[fname][cls] {
					extra = append(extra, cls)
				}
			}
			sort.Strings(extra)
			r.Check(len(extra) == 0, "C04.R2", fname, "miss increment depends only on found / non-constant / non-function", c.Pos(in.Pos()),
				"the miss increment is skipped under an additional condition ("+strings.Join(extra, ", ")+"): some accesses to mutable outer state no longer make the call uncacheable")
		})
		r.Check(n > 0, "C04.R2", fname, "access to outer bindings increments the miss counter", c.Pos(fn.Pos()), "no getMiss increment left in "+fname)
		if name == "Environment.Get" {
			// info: TriggerNoCache dominates the Info() call
			info := c.Fn("object", "Environment.Info")
			for _, ic := range callsIn(fn, info) {
				dom := false
				for _, tc := range callsIn(fn, trigger) {
					if instrDominates(tc, ic) {
						dom = true
					}
				}
				r.Check(dom, "C04.R2", fname, "info lookup triggers no-cache", c.Pos(ic.Pos()), "Get(\"info\") returns the environment description without marking the call uncacheable")
			}
		}
	}
	// catch(): an error turned into a value marks the call uncacheable (errors are never cached directly)
	{
		errT := c.TypeNamed("object", "Error")
		n := 0
		// evalBuiltin and the functions of its package it hands the work to (a case body moved into a method)
		for _, fn := range c.localHelpers(c.SSAFn(c.Fn("eval", "State.evalBuiltin")), 2, c.Fn("eval", "State.evalInternal"), c.Fn("eval", "State.Eval")) {
			fn := fn
			eachInstr(fn, func(in ssa.Instruction) {
				ta, ok := in.(*ssa.TypeAssert)
				if !ok || !types.Identical(ta.AssertedType, errT) {
					return
				}
				// only where the error's text is taken to build another value (not where the error itself is returned)
				takesText := false
				for _, ref := range *ta.Referrers() {
					if f, ok := ref.(*ssa.Field); ok && f.Field == fieldIndex(errT, "Value") {
						takesText = true
					}
					if ex, ok := ref.(*ssa.Extract); ok && ex.Index == 0 {
						for _, r2 := range *ex.Referrers() {
							if f, ok := r2.(*ssa.Field); ok && f.Field == fieldIndex(errT, "Value") {
								takesText = true
							}
						}
					}
				}
				if !takesText {
					return
				}
				n++
				dom := false
				for _, tc := range callsIn(fn, trigger) {
					if instrDominates(tc, ta) {
						dom = true
					}
				}
				if !dom { // or afterwards, on every way out
					dom = mustPassBeforeExit(ta, func(x ssa.Instruction) bool { return isCallTo(x, trigger) }) == nil
				}
				r.Check(dom, "C04.R1", ssaFuncName(fn), "an error turned into a value (catch) triggers no-cache", c.Pos(ta.Pos()),
					"the text of an Error object is taken to build an ordinary value and TriggerNoCache neither precedes it nor follows on every path to a return: the caller is memoized with the caught error (a deadline error of one input is then served for the rest of the session), although error results are never cached")
			})
		}
		if n == 0 {
			r.Undecided("C04.R1: no conversion of an Error into a value found in evalBuiltin (catch expected)")
		}
	}
	// writes to a variable outside of the current frame are misses whatever it held
	c.checkOuterWritesAreMisses(r, "C04.R2")
	c.checkMissChargedToReceiver(r, "C04.R2")
	// evalDelete: TriggerNoCache before any return
	{
		fn := c.SSAFn(c.Fn("eval", "State.evalDelete"))
		bad := mustPassFromEntry(fn, func(in ssa.Instruction) bool { return isCallTo(in, trigger) }, isReturn)
		if bad != nil {
			r.Fail("C04.R2", ssaFuncName(fn), "del triggers no-cache on every path", c.Pos(instrPos(bad.exit)), "a path through evalDelete returns without TriggerNoCache", c.tracePath(bad)...)
		} else {
			r.Ok("C04.R2", ssaFuncName(fn), "del triggers no-cache on every path", c.Pos(fn.Pos()))
		}
	}
	// applyExtension: DontCache => TriggerNoCache before the callback
	{
		fn := c.SSAFn(c.Fn("eval", "State.applyExtension"))
		extT := c.TypeNamed("object", "Extension")
		isFieldLoad := func(v ssa.Value, field string) bool {
			switch x := v.(type) {
			case *ssa.UnOp:
				return isFieldAddrOf(x.X, extT, field)
			case *ssa.Field:
				n, _ := x.X.Type().(*types.Named)
				return n != nil && n.Obj() == extT.Obj() && x.Field == fieldIndex(extT, field)
			}
			return false
		}
		var dcIf *ssa.If
		for _, b := range fn.Blocks {
			if ifi, ok := b.Instrs[len(b.Instrs)-1].(*ssa.If); ok && isFieldLoad(ifi.Cond, "DontCache") {
				dcIf = ifi
			}
		}
		ncb := 0
		eachInstr(fn, func(in ssa.Instruction) {
			call, ok := in.(*ssa.Call)
			if !ok || call.Common().IsInvoke() || call.Common().StaticCallee() != nil {
				return
			}
			if !isFieldLoad(call.Common().Value, "Callback") {
				return
			}
			ncb++
			ok2 := false
			if dcIf != nil && dcIf.Block().Dominates(call.Block()) {
				tb := dcIf.Block().Succs[0]
				hasTrig := false
				for _, in2 := range tb.Instrs {
					if isCallTo(in2, trigger) {
						hasTrig = true
					}
				}
				ok2 = hasTrig && len(tb.Preds) == 1
			}
			r.Check(ok2, "C04.R2", ssaFuncName(fn), "DontCache extension triggers no-cache before its callback", c.Pos(call.Pos()),
				"an extension callback can run for a DontCache extension without TriggerNoCache having been called: callers stay cacheable")
		})
		if ncb == 0 {
			r.Undecided("applyExtension: no callback invocation found")
		}
	}
	// applyFunction: whatever made the callee uncacheable makes the caller uncacheable. After the body
	// evaluation every return is preceded by TriggerNoCache() on the (restored) caller environment, unless the
	// path established both "miss counter unchanged" and "cantCache flag false" (or only the former, the flag
	// implying a changed counter: TriggerNoCache bumps it, see the writer obligations below).
	{
		fn := c.cacheStoreFn()
		fname := ssaFuncName(fn)
		getMisses := c.Fn("object", "Environment.GetMisses")
		var flagRead *ssa.Call
		for _, call := range callsIn(fn, cantCache) {
			flagRead, _ = call.(*ssa.Call)
		}
		var after ssa.Instruction
		for _, call := range callsIn(fn, getMisses) {
			if after == nil || instrDominates(after, call.(ssa.Instruction)) {
				after = call.(ssa.Instruction)
			}
		}
		if after == nil {
			r.Undecided("applyFunction: no read of the callee's miss counter after the body evaluation")
		} else {
			isMisses := func(v ssa.Value) bool {
				call, ok := v.(*ssa.Call)
				return ok && isCallTo(call, getMisses)
			}
			type st struct {
				b         *ssa.BasicBlock
				unchanged bool
			}
			seen := map[st]bool{}
			var bad *pathResult
			var walk func(b *ssa.BasicBlock, from int, unchanged bool, trail []*ssa.BasicBlock)
			walk = func(b *ssa.BasicBlock, from int, unchanged bool, trail []*ssa.BasicBlock) {
				if bad != nil {
					return
				}
				if from == 0 {
					if seen[st{b, unchanged}] {
						return
					}
					seen[st{b, unchanged}] = true
				}
				trail = append(trail, b)
				for i := from; i < len(b.Instrs); i++ {
					x := b.Instrs[i]
					if isCallTo(x, trigger) {
						return // propagated
					}
					if _, isRet := x.(*ssa.Return); isRet {
						if !unchanged {
							bad = &pathResult{exit: x, trace: append([]*ssa.BasicBlock{}, trail...)}
						}
						return
					}
					if _, isPanic := x.(*ssa.Panic); isPanic {
						return
					}
				}
				if ifi, ok := b.Instrs[len(b.Instrs)-1].(*ssa.If); ok {
					if bin, ok := ifi.Cond.(*ssa.BinOp); ok && isMisses(bin.X) && isMisses(bin.Y) && bin.X != bin.Y && (bin.Op == token.NEQ || bin.Op == token.EQL) {
						eqEdge := 1
						if bin.Op == token.EQL {
							eqEdge = 0
						}
						walk(b.Succs[eqEdge], 0, true, trail)
						walk(b.Succs[1-eqEdge], 0, false, trail)
						return
					}
					// the result is an error: it travels up as an error through every caller (never cached), and the
					// only construct that turns it into a value, catch(), marks the call uncacheable itself (C04.R1)
					for _, ec := range callsIn(fn, c.Fn("eval", "State.Eval")) {
						ev, ok := ec.(*ssa.Call)
						if !ok {
							continue
						}
						if k, op, ok := c.tagTest(ifi.Cond, ev); ok && k == errTag {
							errEdge := 0
							if op == token.NEQ {
								errEdge = 1
							}
							walk(b.Succs[errEdge], 0, true, trail)
							walk(b.Succs[1-errEdge], 0, unchanged, trail)
							return
						}
					}
				}
				for _, sx := range b.Succs {
					walk(sx, 0, unchanged, trail)
				}
			}
			walk(after.Block(), instrIndex(after)+1, false, nil)
			desc := "the callee's uncacheability reaches the caller on every return after the body evaluation"
			if bad != nil {
				r.Fail("C04.R2", fname, desc, c.Pos(instrPos(bad.exit)),
					"a return is reachable after the body evaluation on which the callee's miss counter may have changed and TriggerNoCache() was not called on the caller's environment: a function that only calls an impure function (one that reads a variable outside of its arguments, or a non-cacheable extension) stays cacheable itself (x=1; g=func(){x}; f=func(){g()}; f(); x=2; f() gives 1 twice)", c.tracePath(bad)...)
			} else {
				r.Ok("C04.R2", fname, desc, c.Pos(after.Pos()))
			}
		}
		_ = flagRead
		// writers of the two fields
		for _, f := range c.ModuleSSAFuncs() {
			eachInstr(f, func(in ssa.Instruction) {
				st, ok := in.(*ssa.Store)
				if !ok {
					return
				}
				if isFieldAddrOf(st.Addr, envT, "cantCache") {
					r.Check(f == c.SSAFn(trigger), "C04.R2", ssaFuncName(f), "cantCache is written only by TriggerNoCache", c.Pos(st.Pos()),
						"the flag is set outside TriggerNoCache: it can be true while the miss counter is unchanged, and applyFunction tests it only when the counter changed")
				}
				if isFieldAddrOf(st.Addr, envT, "getMiss") {
					r.Check(isMissIncr(in), "C04.R2", ssaFuncName(f), "getMiss only ever increases", c.Pos(st.Pos()),
						"the miss counter is written with something other than an increment: 'after != before' no longer means 'nothing uncacheable happened'")
				}
			})
		}
	}
	r.Floor("C04.R2", 14)

	// ---- R3 ----
	c.checkExtensionPurity(r)

	// ---- R4 ----
	c.checkHashable(r)

	// ---- R5 ----
	{
		fn := c.SSAFn(c.Fn("eval", "State.applyFunction"))
		fname := ssaFuncName(fn)
		for _, g := range callsIn(fn, cacheGet) {
			get := g.(*ssa.Call)
			val, out, okv := extractOf(get, 0), extractOf(get, 1), extractOf(get, 2)
			if val == nil || out == nil || okv == nil {
				r.Fail("C04.R5", fname, "cache hit replays output", c.Pos(get.Pos()), "result, output or ok of Cache.Get is unused")
				continue
			}
			// the return of val
			var hitRet *ssa.Return
			eachInstr(fn, func(in ssa.Instruction) {
				if ret, ok := in.(*ssa.Return); ok && len(ret.Results) == 1 && retVal(ret, 0) == val {
					hitRet = ret
				}
			})
			if hitRet == nil {
				r.Fail("C04.R5", fname, "cache hit replays output", c.Pos(get.Pos()), "no return of the cached value found")
				continue
			}
			// a Write(out) on s.Out
			var write *ssa.Call
			eachInstr(fn, func(in ssa.Instruction) {
				call, ok := in.(*ssa.Call)
				if !ok || !call.Common().IsInvoke() || call.Common().Method.Name() != "Write" {
					return
				}
				if len(call.Common().Args) == 1 && call.Common().Args[0] == out {
					if ld, ok := call.Common().Value.(*ssa.UnOp); ok && isFieldAddrOf(ld.X, stateT, "Out") {
						write = call
					}
				}
			})
			// or a helper that writes the bytes it is given to State.Out on every path
			if write == nil {
				eachInstr(fn, func(in ssa.Instruction) {
					call, ok := in.(*ssa.Call)
					if !ok || call.Common().IsInvoke() {
						return
					}
					callee := call.Common().StaticCallee()
					for i, a := range call.Common().Args {
						if a == out && callee != nil && isModuleSSA(callee) && c.writesParamToOut(callee, i) {
							write = call
						}
					}
				})
			}
			okReplay := false
			if write != nil {
				// the write is skipped only when len(out) is 0
				bad := pathSearch(okv.(ssa.Instruction), func(in ssa.Instruction) bool { return in == ssa.Instruction(write) }, func(in ssa.Instruction) bool { return in == ssa.Instruction(hitRet) })
				okReplay = true
				if bad != nil {
					// acceptable only if the path goes through the false edge of len(out) > 0
					okReplay = false
					for _, b := range bad.trace {
						if ifi, ok := b.Instrs[len(b.Instrs)-1].(*ssa.If); ok {
							if cmp, ok := ifi.Cond.(*ssa.BinOp); ok && cmp.Op == token.GTR {
								if lc, ok := cmp.X.(*ssa.Call); ok {
									if bi, ok := lc.Common().Value.(*ssa.Builtin); ok && bi.Name() == "len" && lc.Common().Args[0] == out {
										if z, ok := constInt(cmp.Y); ok && z == 0 {
											okReplay = true
										}
									}
								}
							}
						}
					}
				}
			}
			r.Check(okReplay, "C04.R5", fname, "cache hit replays output", c.Pos(get.Pos()), "on a cache hit the remembered output is not written to s.Out before the cached result is returned: print side effects are lost")
		}
	}
	r.Floor("C04.R5", 1)
}

// outputIsCapturedBuffer: out derives from buf.Bytes() where &buf was stored into s.Out before evalCall.
func (c *Ctx) outputIsCapturedBuffer(fn *ssa.Function, out ssa.Value, evalCall *ssa.Call, stateT *types.Named) bool {
	if evalCall == nil {
		return false
	}
	// find allocs stored (as interface) into s.Out before the eval call
	bufs := map[ssa.Value]bool{}
	eachInstr(fn, func(in ssa.Instruction) {
		st, ok := in.(*ssa.Store)
		if !ok || !isFieldAddrOf(st.Addr, stateT, "Out") {
			return
		}
		if mi, ok := st.Val.(*ssa.MakeInterface); ok && instrDominates(st, evalCall) {
			bufs[mi.X] = true
		}
	})
	var from func(v ssa.Value, depth int) bool
	from = func(v ssa.Value, depth int) bool {
		if depth > 5 {
			return false
		}
		switch x := v.(type) {
		case *ssa.Phi:
			any := false
			for _, e := range x.Edges {
				if k, ok := e.(*ssa.Const); ok && k.Value == nil {
					continue // nil when nothing was printed
				}
				if !from(e, depth+1) {
					return false
				}
				any = true
			}
			return any
		case *ssa.Call:
			if obj := calleeObj(x); obj != nil && obj.Name() == "Bytes" && len(x.Common().Args) == 1 {
				return bufs[x.Common().Args[0]]
			}
			// a helper that flushes the buffer it is given and returns its bytes
			if fc := c.newFlushCtx(); fc != nil {
				for b := range bufs {
					if fc.fromBytes(x, b, 0, map[ssa.Value]bool{}) {
						return true
					}
				}
			}
		}
		return false
	}
	return from(out, 0)
}

// impure primitive classification for extension purity
func impurePrimitive(obj *types.Func) string {
	if obj == nil || obj.Pkg() == nil {
		return ""
	}
	switch obj.Pkg().Path() {
	case "os":
		switch obj.Name() {
		case "IsNotExist", "IsExist", "IsPermission", "IsTimeout", "NewSyscallError", "Getpagesize", "IsPathSeparator", "SameFile":
			return ""
		}
		return "os." + obj.Name()
	case "os/exec":
		return "os/exec." + obj.Name()
	case "time":
		switch obj.Name() {
		case "Now", "Since", "Until", "Sleep", "After", "Tick", "NewTimer", "NewTicker", "AfterFunc":
			return "time." + obj.Name()
		}
	case "math/rand", "math/rand/v2", "crypto/rand":
		return obj.Pkg().Path() + "." + obj.Name()
	case "net", "net/http":
		return obj.Pkg().Path() + "." + obj.Name()
	}
	// waiting is the effect, whatever library does it (fortio.org/terminal.SleepWithContext)
	if strings.HasPrefix(obj.Name(), "Sleep") {
		return obj.Pkg().Path() + "." + obj.Name()
	}
	return ""
}

func (c *Ctx) checkExtensionPurity(r *Report) {
	regs := c.ExtReg()
	// package-level variables of the module written at run time (outside package initialisers
	// and outside functions only reachable from Init)
	initInternal := c.SSAFn(c.Fn("extensions", "initInternal"))
	initReach := c.CG().Reach([]*ssa.Function{initInternal}, staticOrInvoke, func(f *ssa.Function) bool { return !isModuleSSA(f) })
	writtenAtRuntime := map[*ssa.Global]string{}
	for _, fn := range c.ModuleSSAFuncs() {
		if fn.Synthetic != "" {
			continue
		}
		top := fn
		for top.Parent() != nil {
			top = top.Parent()
		}
		eachInstr(fn, func(in ssa.Instruction) {
			st, ok := in.(*ssa.Store)
			if !ok {
				return
			}
			g, ok := st.Addr.(*ssa.Global)
			if !ok || g.Pkg == nil || shortPkg(g.Pkg.Pkg) != "extensions" {
				return
			}
			if initReach[fn] && fn.Parent() == nil {
				return // written while initialising, not by a callback
			}
			writtenAtRuntime[g] = ssaFuncName(fn)
		})
	}
	n := 0
	for _, reg := range regs {
		if len(reg.Unknown) > 0 || reg.Callback == nil {
			r.Undecided("registration at %s not resolved: %v", c.Pos(reg.Site.Pos()), reg.Unknown)
			continue
		}
		reach := c.callbackReach(reg.Callback)
		var why []string
		seenWhy := map[string]bool{}
		add := func(s string) {
			if !seenWhy[s] {
				seenWhy[s] = true
				why = append(why, s)
			}
		}
		if reg.ClientData {
			add("carries ClientData (state behind the callback)")
		}
		for _, f := range sortedFuncs(reach) {
			eachInstr(f, func(in ssa.Instruction) {
				if call, ok := in.(ssa.CallInstruction); ok {
					if s := impurePrimitive(calleeObj(call)); s != "" {
						add("calls " + s)
					}
				}
				// reads/writes of run-time mutated package state, os.Stdin/Stdout
				var g *ssa.Global
				switch x := in.(type) {
				case *ssa.UnOp:
					g, _ = x.X.(*ssa.Global)
				case *ssa.Store:
					g, _ = x.Addr.(*ssa.Global)
				}
				if g != nil {
					if w, ok := writtenAtRuntime[g]; ok {
						add("uses package state " + g.Name() + " (written by " + w + ")")
					}
					if g.Pkg != nil && g.Pkg.Pkg.Path() == "os" && (g.Name() == "Stdin") {
						add("reads os.Stdin")
					}
				}
			})
		}
		for _, name := range reg.Names {
			n++
			desc := "extension " + name
			if len(why) == 0 {
				r.OkWhy("C04.R3", ssaFuncName(reg.In), desc, c.Pos(reg.Site.Pos()), "pure reach")
				continue
			}
			sort.Strings(why)
			r.Check(reg.DontCache, "C04.R3", ssaFuncName(reg.In), desc, c.Pos(reg.Site.Pos()),
				"the callback is not a pure function of its arguments ("+strings.Join(why, "; ")+") but DontCache is false: a cached caller skips or replays it")
		}
	}
	r.Floor("C04.R3", 55)
}

// checkHashable verifies object.Hashable against Go map-key semantics.
func (c *Ctx) checkHashable(r *Report) {
	hashable := c.Fn("object", "Hashable")
	fn := c.SSAFn(hashable)
	fname := ssaFuncName(fn)
	objT := c.TypeNamed("object", "Object")
	names := c.objectTypeNames()
	tagTypes := c.concreteTypesByTag()
	// the tag Hashable switches on is the tag of the argument itself: the cache stores the argument, not a
	// dereferenced copy, so accepting what a reference points to would put the reference into the key
	{
		nT, okT := 0, true
		eachInstr(fn, func(in ssa.Instruction) {
			call, ok := in.(*ssa.Call)
			if !ok || !call.Common().IsInvoke() || call.Common().Method.Name() != "Type" {
				return
			}
			used := false
			for _, ref := range *call.Referrers() {
				if bin, ok := ref.(*ssa.BinOp); ok && bin.Op == token.EQL {
					used = true
				}
			}
			if !used {
				return
			}
			nT++
			if call.Common().Value != ssa.Value(fn.Params[0]) {
				okT = false
			}
		})
		r.Check(nT > 0 && okT, "C04.R4", fname, "the tag tested is the tag of the argument itself", c.Pos(fn.Pos()),
			"Hashable switches on the tag of a value derived from its argument (e.g. Value(o)), so a reference to a hashable value is accepted; Cache.Get/Set store the argument itself in the key, and a key holding a reference (name + environment) stays equal while the variable changes: stale results")
	}
	// tags on whose equality edge the function returns the constant true directly
	floatOutright := ""
	defer func() {
		r.Check(floatOutright == "", "C04.R4", fname, "equal float keys are equal arguments", c.Pos(fn.Pos()),
			"Hashable accepts every float outright ("+floatOutright+"): 0.0 and -0.0 are the same Go map key, so f(-0.0) is answered with the result memoised for f(0.0) (func f(x){1/x}: +Inf twice)")
	}()
	for _, b := range fn.Blocks {
		ret, ok := b.Instrs[len(b.Instrs)-1].(*ssa.Return)
		if !ok || len(ret.Results) != 1 {
			continue
		}
		k, ok := ret.Results[0].(*ssa.Const)
		if !ok || k.Value == nil || k.Value.ExactString() != "true" {
			continue
		}
		// which tags lead here through == edges (switch case lists)
		for _, ib := range fn.Blocks {
			ifi, ok := ib.Instrs[len(ib.Instrs)-1].(*ssa.If)
			if !ok || ib.Succs[0] != b {
				continue
			}
			bin, ok := ifi.Cond.(*ssa.BinOp)
			if !ok || bin.Op != token.EQL {
				continue
			}
			tag, ok := constInt(bin.Y)
			if !ok {
				continue
			}
			// b must be a pure "return true" block (no recursive checks) to count as outright acceptance
			if len(b.Instrs) != 1 {
				continue
			}
			tn := names[tag]
			// a float key: Go's map equality makes 0.0 and -0.0 one key although they are different arguments (1/x),
			// so FLOAT cannot be accepted without looking at the value
			if tn == "FLOAT" {
				floatOutright = c.Pos(ifi.Pos())
				continue
			}
			r.Check(tn != "REFERENCE", "C04.R4", fname, fmt.Sprintf("tag %s accepted outright is not an alias", tn), c.Pos(ifi.Pos()),
				"Hashable accepts references: a reference compares by (name, environment), not by the value it currently denotes, so a memoised call keyed on it returns a stale result after the variable is assigned (and the possibly-Reference arguments stored in the cache key are accepted by C06.R4 on the strength of this test)")
			for _, ct := range tagTypes[tag] {
				cmpOK := types.Comparable(ct) && !containsInterfaceOrSlice(ct, 0)
				if p, isPtr := ct.(*types.Pointer); isPtr {
					_ = p
					cmpOK = true // pointer identity
				}
				r.Check(cmpOK, "C04.R4", fname, fmt.Sprintf("tag %s accepted outright: %s is a by-value comparable key", tn, typeShort(ct)), c.Pos(ifi.Pos()),
					fmt.Sprintf("Hashable accepts tag %s without inspecting the value, but %s holds slices/interfaces: using it as a Go map key panics or compares by identity", tn, typeShort(ct)))
			}
		}
	}
	// tags some of whose concrete types are keyed by identity (pointer, slice): `true` is only returned for
	// them once the value was narrowed, by a comma-ok assertion, to a representation that is keyed by value
	byIdentity := func(t types.Type) bool {
		switch t.Underlying().(type) {
		case *types.Pointer, *types.Slice, *types.Map, *types.Chan, *types.Signature:
			return true
		}
		return false
	}
	for _, ib := range fn.Blocks {
		ifi, ok := ib.Instrs[len(ib.Instrs)-1].(*ssa.If)
		if !ok {
			continue
		}
		bin, ok := ifi.Cond.(*ssa.BinOp)
		if !ok || bin.Op != token.EQL {
			continue
		}
		tag, ok := constInt(bin.Y)
		if !ok {
			continue
		}
		var idTypes []string
		for _, ct := range tagTypes[tag] {
			if byIdentity(ct) {
				idTypes = append(idTypes, typeShort(ct))
			}
		}
		if len(idTypes) == 0 {
			continue
		}
		arm := ib.Succs[0]
		if len(arm.Preds) != 1 {
			continue
		}
		bad := ""
		for _, b := range fn.Blocks {
			if !(b == arm || arm.Dominates(b)) {
				continue
			}
			ret, ok := b.Instrs[len(b.Instrs)-1].(*ssa.Return)
			if !ok || len(ret.Results) != 1 {
				continue
			}
			if k, ok := ret.Results[0].(*ssa.Const); !ok || k.Value == nil || k.Value.ExactString() != "true" {
				continue
			}
			narrowed := false
			for _, cc := range controlling(b) {
				ex, ok := cc.Cond.(*ssa.Extract)
				if !ok || ex.Index != 1 || cc.Edge != 0 {
					continue
				}
				if ta, ok := ex.Tuple.(*ssa.TypeAssert); ok && ta.CommaOk && ta.X == ssa.Value(fn.Params[0]) && !byIdentity(ta.AssertedType) {
					if _, isIface := ta.AssertedType.Underlying().(*types.Interface); !isIface {
						narrowed = true
					}
				}
			}
			if !narrowed {
				bad = c.Pos(ret.Pos())
			}
		}
		r.Check(bad == "", "C04.R4", fname, fmt.Sprintf("tag %s is accepted only for its by-value representation", names[tag]), c.Pos(ifi.Pos()),
			fmt.Sprintf("Hashable returns true (%s) for tag %s without narrowing the argument to a representation that is keyed by value: %s is keyed by identity in the Go map of the cache, and it is updated in place, so a memoized call on the same large container returns the result computed for its old content", bad, names[tag], strings.Join(idTypes, ", ")))
	}
	// composite arms: comma-ok assertions to struct types with Object components
	eachInstr(fn, func(in ssa.Instruction) {
		ta, ok := in.(*ssa.TypeAssert)
		if !ok || !ta.CommaOk {
			return
		}
		st, ok := ta.AssertedType.Underlying().(*types.Struct)
		if !ok {
			return
		}
		// required components: Object-typed leaves of array fields
		var required []string
		for i := 0; i < st.NumFields(); i++ {
			arr, ok := st.Field(i).Type().Underlying().(*types.Array)
			if !ok {
				if sl, ok := st.Field(i).Type().Underlying().(*types.Slice); ok {
					_ = sl
					required = append(required, "<slice field "+st.Field(i).Name()+": not a comparable key>")
				}
				continue
			}
			if types.Identical(arr.Elem(), objT) {
				required = append(required, st.Field(i).Name()+"[]")
			} else if est, ok := arr.Elem().Underlying().(*types.Struct); ok {
				for j := 0; j < est.NumFields(); j++ {
					if types.Identical(est.Field(j).Type(), objT) {
						required = append(required, st.Field(i).Name()+"[]."+est.Field(j).Name())
					}
				}
			}
		}
		covered := map[string]bool{}
		for _, ci := range callsIn(fn, hashable) {
			call := ci.(*ssa.Call)
			arg := call.Common().Args[0]
			path := componentPath(arg, st)
			if path == "" {
				continue
			}
			// failure edge returns false
			okFail := false
			for _, ref := range *call.Referrers() {
				if ifi, ok := ref.(*ssa.If); ok {
					if reachesOnlyConstReturn(ifi.Block().Succs[1], false) {
						okFail = true
					}
				}
			}
			if !okFail {
				okFail = c.onlyFalseWhen(fn, call)
			}
			if okFail {
				covered[path] = true
			}
		}
		// a helper that is handed (a slice of) a component array and answers whether all its elements are hashable
		eachInstr(fn, func(in2 ssa.Instruction) {
			hc, ok := in2.(*ssa.Call)
			if !ok || hc.Common().IsInvoke() {
				return
			}
			callee := hc.Common().StaticCallee()
			if callee == nil || !isModuleSSA(callee) || callee.Object() == types.Object(hashable) || len(callee.Params) != 1 || len(hc.Common().Args) != 1 {
				return
			}
			// the argument: a slice of field f of the asserted struct value
			var fieldName string
			if sl, ok := hc.Common().Args[0].(*ssa.Slice); ok {
				if fa, ok := sl.X.(*ssa.FieldAddr); ok {
					if n := namedStruct(fa.X.Type()); n != nil && types.Identical(n.Underlying(), st) {
						fieldName = st.Field(fa.Field).Name()
					}
				}
			}
			if fieldName == "" {
				return
			}
			// the helper: every Hashable call is on an element of its parameter and its failure leads to `false` only
			good, nCalls := true, 0
			subs := map[string]bool{}
			// elemSub: v is an element of the parameter ("") or a field of one (".Key"); ok=false otherwise
			elemSub := func(v ssa.Value) (string, bool) {
				isElemAddr := func(a ssa.Value) bool {
					x, isIA := a.(*ssa.IndexAddr)
					return isIA && x.X == ssa.Value(callee.Params[0])
				}
				switch x := v.(type) {
				case *ssa.UnOp:
					if isElemAddr(x.X) {
						return "", true
					}
					if fa, ok := x.X.(*ssa.FieldAddr); ok {
						base := fa.X
						// the element copied into a local first (for _, kv := range pairs)
						if al, isAl := base.(*ssa.Alloc); isAl {
							var only ssa.Value
							n := 0
							for _, ref := range *al.Referrers() {
								if st, ok := ref.(*ssa.Store); ok && st.Addr == ssa.Value(al) {
									n++
									only = st.Val
								}
							}
							if ld, ok := only.(*ssa.UnOp); ok && n == 1 && isElemAddr(ld.X) {
								base = ld.X
							}
						}
						if isElemAddr(base) {
							if est := namedOrStruct(fa.X.Type()); est != nil {
								return "." + est.Field(fa.Field).Name(), true
							}
						}
					}
				case *ssa.Field:
					if ld, ok := x.X.(*ssa.UnOp); ok && isElemAddr(ld.X) {
						if est, ok := x.X.Type().Underlying().(*types.Struct); ok {
							return "." + est.Field(x.Field).Name(), true
						}
					}
				}
				return "", false
			}
			for _, ci := range callsIn(callee, hashable) {
				ic, ok := ci.(*ssa.Call)
				if !ok {
					continue
				}
				nCalls++
				sub, ok2 := elemSub(ic.Common().Args[0])
				if !ok2 || !c.onlyFalseWhen(callee, ic) {
					good = false
					continue
				}
				subs[sub] = true
			}
			if good && nCalls > 0 && c.onlyFalseWhen(fn, hc) {
				for sub := range subs {
					covered[fieldName+"[]"+sub] = true
				}
			}
		})
		for _, req := range required {
			r.Check(covered[req], "C04.R4", fname, fmt.Sprintf("%s component %s checked recursively", typeShort(ta.AssertedType), req), c.Pos(ta.Pos()),
				fmt.Sprintf("Hashable accepts a %s without checking component %s: an unhashable value (large array, function) inside it reaches the Go map key and panics with 'hash of unhashable type'", typeShort(ta.AssertedType), req))
		}
	})
	r.Floor("C04.R4", 8)
}

func containsInterfaceOrSlice(t types.Type, depth int) bool {
	if depth > 4 {
		return false
	}
	switch u := t.Underlying().(type) {
	case *types.Slice, *types.Map, *types.Signature, *types.Interface:
		return true
	case *types.Struct:
		for i := 0; i < u.NumFields(); i++ {
			if containsInterfaceOrSlice(u.Field(i).Type(), depth+1) {
				return true
			}
		}
	case *types.Array:
		return containsInterfaceOrSlice(u.Elem(), depth+1)
	}
	return false
}

// componentPath: arg is (a load of) an element of an array field of a struct of type st,
// optionally a field of that element: returns "field[]" or "field[].sub".
func componentPath(arg ssa.Value, st *types.Struct) string {
	sub := ""
	v := arg
	if f, ok := v.(*ssa.Field); ok { // kv.Key where kv is a loaded element
		if est, ok := f.X.Type().Underlying().(*types.Struct); ok {
			sub = "." + est.Field(f.Field).Name()
		}
		v = f.X
	}
	ld, ok := v.(*ssa.UnOp)
	if !ok {
		return ""
	}
	addr := ld.X
	if fa, ok := addr.(*ssa.FieldAddr); ok && sub == "" {
		// local copy of an element (range variable): *kv = load(&storage[i]); &kv.Key
		if al, ok := fa.X.(*ssa.Alloc); ok {
			var src ssa.Value
			n := 0
			for _, ref := range *al.Referrers() {
				if st, ok := ref.(*ssa.Store); ok && st.Addr == al {
					n++
					src = st.Val
				}
			}
			if ld2, ok := src.(*ssa.UnOp); ok && n == 1 {
				if ia, ok := ld2.X.(*ssa.IndexAddr); ok {
					if est, ok := al.Type().(*types.Pointer).Elem().Underlying().(*types.Struct); ok {
						sub = "." + est.Field(fa.Field).Name()
						addr = ia
					}
				}
			}
		}
	}
	if fa, ok := addr.(*ssa.FieldAddr); ok && sub == "" {
		if ia, ok := fa.X.(*ssa.IndexAddr); ok {
			if est, ok := fa.X.Type().(*types.Pointer).Elem().Underlying().(*types.Struct); ok {
				sub = "." + est.Field(fa.Field).Name()
				addr = ia
			}
		}
	}
	ia, ok := addr.(*ssa.IndexAddr)
	if !ok {
		return ""
	}
	// base: slice of field of struct value, or field addr
	base := ia.X
	if sl, ok := base.(*ssa.Slice); ok {
		base = sl.X
	}
	if fa, ok := base.(*ssa.FieldAddr); ok {
		if s2, ok := fa.X.Type().(*types.Pointer).Elem().Underlying().(*types.Struct); ok && types.Identical(s2, st) {
			return st.Field(fa.Field).Name() + "[]" + sub
		}
	}
	return ""
}

// reachesOnlyConstReturn: every return reachable from b returns the boolean constant want.
func reachesOnlyConstReturn(b *ssa.BasicBlock, want bool) bool {
	seen := map[*ssa.BasicBlock]bool{}
	ok := true
	found := false
	var walk func(x *ssa.BasicBlock)
	walk = func(x *ssa.BasicBlock) {
		if seen[x] || !ok {
			return
		}
		seen[x] = true
		if ret, isRet := x.Instrs[len(x.Instrs)-1].(*ssa.Return); isRet {
			found = true
			k, isK := ret.Results[0].(*ssa.Const)
			if !isK || k.Value == nil || (k.Value.ExactString() == "true") != want {
				ok = false
			}
			return
		}
		for _, s := range x.Succs {
			walk(s)
		}
	}
	walk(b)
	return ok && found
}

// concreteTypesByTag: tag constant -> concrete types whose Type() method returns it.
func (c *Ctx) concreteTypesByTag() map[int64][]types.Type {
	res := map[int64][]types.Type{}
	for _, fn := range c.ModuleSSAFuncs() {
		if fn.Name() != "Type" || fn.Signature.Recv() == nil || fn.Signature.Params().Len() != 0 {
			continue
		}
		if fn.Pkg == nil || shortPkg(fn.Pkg.Pkg) != "object" {
			continue
		}
		eachInstr(fn, func(in ssa.Instruction) {
			if ret, ok := in.(*ssa.Return); ok && len(ret.Results) == 1 {
				if k, ok := constInt(ret.Results[0]); ok {
					res[k] = append(res[k], fn.Signature.Recv().Type())
				}
			}
		})
	}
	return res
}

func init() {
	register("C04", &propDef{
		explain: "Static rules on the purity-detection and cache mechanism: the single cache write is confined (SSA dominance) to the edges 'miss counter unchanged across the body evaluation' and 'result is not an ERROR', stores the evaluated result under the lookup's key with the captured output buffer; every uncacheability source (info, stored and new references to non-constant non-function outer bindings, del, DontCache extensions, callee cantCache) reaches the miss counter and no additional condition can skip it; an effect analysis over the reconstructed extension registry requires DontCache for every callback that touches the OS, clock, random sources, run-time package state or ClientData; Hashable is checked against Go map-key semantics (all components checked recursively); cached output is replayed on a hit. Decides the mechanism for all programs; does not decide that the purity exemption for upper-case and function-valued captures, or the text-based key, are sound (known unsound, value-level design). Also: every return of applyFunction after the body evaluation tests the callee cantCache flag (or lies on the counter-unchanged edge), cantCache/getMiss have single disciplined writers, and Hashable never accepts references.",
		assume:  []string{"calls through function values inside callbacks are not followed for effects", "the purity exemption (constants, function values) is taken as designed: staleness through redefinition or upper-case captures is not covered"},
		run:     runC04,
	})
}

// onlyFalseWhen: with the result of call fixed to false, every return of fn that can still execute returns
// the constant false (phis are resolved by the edge taken: `!(A && B)`, early returns in loops).
func (c *Ctx) onlyFalseWhen(fn *ssa.Function, call *ssa.Call) bool {
	reach := c.blocksReachableWith(fn, call, int64(0))
	n := 0
	for b := range reach {
		ret, ok := b.Instrs[len(b.Instrs)-1].(*ssa.Return)
		if !ok || len(ret.Results) != 1 {
			continue
		}
		// returns in the call's own block before the call do not count (there are none: a return ends a block)
		n++
		if k, ok := ret.Results[0].(*ssa.Const); ok && k.Value != nil && k.Value.ExactString() == "false" {
			continue
		}
		// `return helper(...)` / `return call` itself: the fixed value is returned
		if ret.Results[0] == ssa.Value(call) {
			continue
		}
		// a value that evaluates to false under the assumption
		if v, ok := c.evalAny(ret.Results[0], call, int64(0), 0); ok {
			if i, isI := v.(int64); isI && i == 0 {
				continue
			}
		}
		if phi, ok := ret.Results[0].(*ssa.Phi); ok {
			allFalse := true
			for _, e := range phi.Edges {
				if v, ok := c.evalAny(e, call, int64(0), 0); !ok || v != any(int64(0)) {
					allFalse = false
				}
			}
			if allFalse {
				continue
			}
		}
		return false
	}
	return n > 0
}

// localHelpers: fn and the functions of its own package it calls statically (transitively up to depth),
// not going through the functions in stop (the evaluator's entry points): where a body moved into a helper
// of the same package is still part of the construct a rule looks at.
func (c *Ctx) localHelpers(fn *ssa.Function, depth int, stop ...*types.Func) []*ssa.Function {
	stopped := map[*ssa.Function]bool{}
	for _, f := range stop {
		if sf := c.SSAFn(f); sf != nil {
			stopped[sf] = true
		}
	}
	res := []*ssa.Function{fn}
	seen := map[*ssa.Function]bool{fn: true}
	frontier := []*ssa.Function{fn}
	for d := 0; d < depth; d++ {
		var next []*ssa.Function
		for _, f := range frontier {
			eachInstr(f, func(in ssa.Instruction) {
				call, ok := in.(ssa.CallInstruction)
				if !ok {
					return
				}
				g := call.Common().StaticCallee()
				if g == nil || g.Pkg != fn.Pkg || seen[g] || stopped[g] || len(g.Blocks) == 0 {
					return
				}
				seen[g] = true
				res = append(res, g)
				next = append(next, g)
			})
		}
		frontier = next
	}
	return res
}

// cacheStoreFn: applyFunction, or the function of its package it tail-calls that evaluates the body and
// stores into the cache (applyFunction split after the lookup): the function the post-evaluation rules are about.
func (c *Ctx) cacheStoreFn() *ssa.Function {
	afn := c.SSAFn(c.Fn("eval", "State.applyFunction"))
	cacheSet := c.Fn("eval", "Cache.Set")
	if len(callsIn(afn, cacheSet)) > 0 {
		return afn
	}
	res := afn
	eachInstr(afn, func(in ssa.Instruction) {
		call, ok := in.(*ssa.Call)
		if !ok {
			return
		}
		h := call.Common().StaticCallee()
		if h == nil || h.Pkg != afn.Pkg || len(callsIn(h, cacheSet)) != 1 || len(c.staticCallSites(h)) != 1 {
			return
		}
		// its result is what applyFunction returns, as is
		for _, ref := range *call.Referrers() {
			if _, isRet := ref.(*ssa.Return); isRet {
				res = h
			}
		}
	})
	return res
}

// staticCallSites: the static calls of fn in the module (nil when fn is also used as a value).
func (c *Ctx) staticCallSites(fn *ssa.Function) []*ssa.Call {
	var res []*ssa.Call
	taken := false
	for _, g := range c.ModuleSSAFuncs() {
		eachInstr(g, func(in ssa.Instruction) {
			for _, op := range in.Operands(nil) {
				if *op != ssa.Value(fn) {
					continue
				}
				if call, ok := in.(*ssa.Call); ok && call.Common().Value == *op {
					res = append(res, call)
				} else {
					taken = true
				}
			}
		})
	}
	if taken {
		return nil
	}
	return res
}

func paramIndex(fn *ssa.Function, p *ssa.Parameter) int {
	for i, q := range fn.Params {
		if q == p {
			return i
		}
	}
	return -1
}

// namedOrStruct: the struct type a pointer-to-struct (or struct) type denotes.
func namedOrStruct(t types.Type) *types.Struct {
	if p, ok := t.Underlying().(*types.Pointer); ok {
		t = p.Elem()
	}
	st, _ := t.Underlying().(*types.Struct)
	return st
}
