package main

// typefacts: which object.Type tags an interface value is known to have at a program point,
// from dominating tests of v.Type() against constants (if / switch arms / boolean aliases).

import (
	"go/constant"
	"go/token"
	"go/types"

	"golang.org/x/tools/go/ssa"
)

// typeCallsOn lists calls v.Type() (object.Object's tag method) on value v inside fn.
func (c *Ctx) typeCallsOn(v ssa.Value) []ssa.Value {
	var res []ssa.Value
	refs := v.Referrers()
	if refs == nil {
		return nil
	}
	for _, ref := range *refs {
		call, ok := ref.(*ssa.Call)
		if !ok {
			continue
		}
		cc := call.Common()
		if cc.IsInvoke() && cc.Value == v && cc.Method.Name() == "Type" && len(cc.Args) == 0 {
			res = append(res, call)
		}
	}
	return res
}

// tagsAt: the set of tag constants value v is known to be restricted to at block b
// (known=false when no dominating test restricts it).
func (c *Ctx) tagsAt(v ssa.Value, b *ssa.BasicBlock) (map[int64]bool, bool) {
	var result map[int64]bool
	for _, cc := range controlling(b) {
		k, op, ok := c.tagTest(cc.Cond, v)
		if !ok {
			continue
		}
		if (op == token.EQL) == (cc.Edge == 0) {
			if result == nil {
				result = map[int64]bool{}
			}
			result[k] = true
		}
	}
	if result == nil {
		return nil, false
	}
	return result, true
}

// tagTest: cond is `v.Type() ==/!= K` (the tag may flow through a phi whose other edges are the zero tag).
func (c *Ctx) tagTest(cond ssa.Value, v ssa.Value) (int64, token.Token, bool) {
	bin, ok := cond.(*ssa.BinOp)
	if !ok || (bin.Op != token.EQL && bin.Op != token.NEQ) {
		return 0, 0, false
	}
	tv, kv := bin.X, bin.Y
	k, isK := constInt(kv)
	if !isK {
		tv, kv = bin.Y, bin.X
		k, isK = constInt(kv)
	}
	if !isK {
		return 0, 0, false
	}
	if isTypeCallOn(tv, v) {
		return k, bin.Op, true
	}
	if phi, ok := tv.(*ssa.Phi); ok {
		// the value and its tag are both carried by merges of the same block: edge by edge, the tag is that
		// of the value, or another constant where the value is nil
		if vphi, ok := v.(*ssa.Phi); ok && vphi.Block() == phi.Block() && len(vphi.Edges) == len(phi.Edges) {
			any, good := false, true
			for i, e := range phi.Edges {
				if isTypeCallOn(e, vphi.Edges[i]) {
					any = true
					continue
				}
				z, isK := constInt(e)
				kv, isNil := vphi.Edges[i].(*ssa.Const)
				if isK && z != k && isNil && kv.IsNil() {
					continue
				}
				good = false
			}
			if any && good {
				return k, bin.Op, true
			}
		}
		any := false
		for _, e := range phi.Edges {
			if isTypeCallOn(e, v) {
				any = true
				continue
			}
			if z, ok := constInt(e); ok && z != k {
				continue // another constant tag (e.g. the zero value) on paths where v was not evaluated
			}
			return 0, 0, false
		}
		if any && bin.Op == token.EQL {
			return k, bin.Op, true
		}
	}
	return 0, 0, false
}

func isTypeCallOn(t ssa.Value, v ssa.Value) bool {
	call, ok := t.(*ssa.Call)
	if !ok {
		return false
	}
	cc := call.Common()
	return cc.IsInvoke() && cc.Method.Name() == "Type" && len(cc.Args) == 0 && (cc.Value == v || sameValue(cc.Value, v))
}

// tagConst returns the value of object.<name>.
func (c *Ctx) tagConst(name string) int64 {
	k := c.Const("object", name)
	v, _ := constInt64(k)
	return v
}

func constInt64(k *types.Const) (int64, bool) {
	v := k.Val()
	if i, ok := constantInt64(v); ok {
		return i, true
	}
	return 0, false
}

// tagExcludedAt: at block b, value v is known NOT to have tag k (false edge of v.Type()==k or
// true edge of v.Type()!=k).
func (c *Ctx) tagExcludedAt(v ssa.Value, k int64, b *ssa.BasicBlock) bool {
	for _, cc := range controlling(b) {
		kk, op, ok := c.tagTest(cc.Cond, v)
		if !ok || kk != k {
			continue
		}
		if (op == token.EQL) == (cc.Edge == 1) {
			return true
		}
	}
	// positive knowledge of other tags also excludes k
	if tags, known := c.tagsAt(v, b); known && !tags[k] {
		return true
	}
	return false
}

// controlling lists the branch conditions (value, edge) that are known to hold in block b:
// b is confined to that edge of the If. Short-circuit values materialised as phis
// (`a && b` used as a switch case) are expanded into their operands.
type ctrlCond struct {
	If   *ssa.If
	Cond ssa.Value
	Edge int // 0: Cond is true, 1: Cond is false
}

func controlling(b *ssa.BasicBlock) []ctrlCond {
	return controllingDepth(b, 0)
}

func controllingDepth(b *ssa.BasicBlock, depth int) []ctrlCond {
	var res []ctrlCond
	if depth > 6 {
		return nil
	}
	for _, ib := range b.Parent().Blocks {
		ifi, ok := ib.Instrs[len(ib.Instrs)-1].(*ssa.If)
		if !ok {
			continue
		}
		for e := 0; e < 2; e++ {
			if !onEdge(ib, e, b) {
				continue
			}
			res = append(res, expandCond(ifi, ifi.Cond, e, depth)...)
		}
	}
	return res
}

func expandCond(ifi *ssa.If, cond ssa.Value, edge int, depth int) []ctrlCond {
	res := []ctrlCond{{If: ifi, Cond: cond, Edge: edge}}
	phi, ok := cond.(*ssa.Phi)
	if !ok || depth > 6 {
		return res
	}
	// && : every constant edge is false; knowing the phi is true means it came from a
	// non-constant edge: that operand is true, and everything controlling its block holds.
	// || : every constant edge is true; knowing the phi is false, symmetrically.
	var nonConst []int
	allFalse, allTrue := true, true
	for i, e := range phi.Edges {
		k, isK := e.(*ssa.Const)
		if !isK || k.Value == nil || k.Value.Kind() != constant.Bool {
			nonConst = append(nonConst, i)
			continue
		}
		if constant.BoolVal(k.Value) {
			allFalse = false
		} else {
			allTrue = false
		}
	}
	if len(nonConst) != 1 || len(nonConst) == len(phi.Edges) {
		return res
	}
	i := nonConst[0]
	if (edge == 0 && allFalse) || (edge == 1 && allTrue) {
		res = append(res, expandCond(ifi, phi.Edges[i], edge, depth+1)...)
		res = append(res, controllingDepth(phi.Block().Preds[i], depth+1)...)
		// the block computing the operand is itself entered through the first operand's edge
	}
	return res
}

// edgeConds: the conditions known to hold when control goes from pred to succ: what controls pred, and
// pred's own test when succ is exactly one of its two branches.
func edgeConds(pred, succ *ssa.BasicBlock) []ctrlCond {
	res := controlling(pred)
	if ifi, ok := pred.Instrs[len(pred.Instrs)-1].(*ssa.If); ok && len(pred.Succs) == 2 && pred.Succs[0] != pred.Succs[1] {
		for e := 0; e < 2; e++ {
			if pred.Succs[e] == succ {
				res = append(res, expandCond(ifi, ifi.Cond, e, 0)...)
			}
		}
	}
	return res
}

// tagExcludedOnEdge: value v is known not to have tag k when control goes from pred to succ.
func (c *Ctx) tagExcludedOnEdge(v ssa.Value, k int64, pred, succ *ssa.BasicBlock) bool {
	if c.tagExcludedAt(v, k, pred) {
		return true
	}
	for _, cc := range edgeConds(pred, succ) {
		kk, op, ok := c.tagTest(cc.Cond, v)
		if ok && kk == k && (op == token.EQL) == (cc.Edge == 1) {
			return true
		}
	}
	return false
}

// predicateTrueImplies: every return of the boolean function p that can be true lies where `holds` is satisfied
// by the conditions controlling it (a test moved into a named predicate still counts as that test).
func (c *Ctx) predicateTrueImplies(p *ssa.Function, holds func(conds []ctrlCond) bool) bool {
	if p == nil || len(p.Blocks) == 0 || p.Signature.Results().Len() != 1 {
		return false
	}
	ok, n := true, 0
	var mayBeTrue func(v ssa.Value, conds []ctrlCond, depth int) bool
	mayBeTrue = func(v ssa.Value, conds []ctrlCond, depth int) bool {
		if depth > 6 {
			return true
		}
		if k, isK := v.(*ssa.Const); isK {
			bv, isB := constBool(k)
			return !isB || bv
		}
		if holds(conds) {
			return false
		}
		if phi, isPhi := v.(*ssa.Phi); isPhi {
			for e, ev := range phi.Edges {
				pred := phi.Block().Preds[e]
				if mayBeTrue(ev, edgeConds(pred, phi.Block()), depth+1) {
					return true
				}
			}
			return false
		}
		// a negated test of the wanted kind: !F(x) is true only where F(x) is false
		if u, isNot := v.(*ssa.UnOp); isNot && u.Op == token.NOT {
			if holds([]ctrlCond{{Cond: u.X, Edge: 1}}) {
				return false
			}
		}
		return true
	}
	eachInstr(p, func(in ssa.Instruction) {
		ret, isRet := in.(*ssa.Return)
		if !isRet || len(ret.Results) != 1 {
			return
		}
		n++
		if mayBeTrue(retVal(ret, 0), controlling(ret.Block()), 0) {
			ok = false
		}
	})
	return ok && n > 0
}

// testedFalse: where the conditions hold, F(arg) is known to be false: directly, or through a predicate of the
// module that is handed the same argument and is true only where F(its parameter) is false.
func (c *Ctx) testedFalse(conds []ctrlCond, F *types.Func, arg ssa.Value) bool {
	for _, cc := range conds {
		cond, edge := cc.Cond, cc.Edge
		if u, ok := cond.(*ssa.UnOp); ok && u.Op == token.NOT {
			cond, edge = u.X, 1-edge
		}
		call, ok := cond.(*ssa.Call)
		if !ok {
			continue
		}
		if isCallTo(call, F) && edge == 1 && len(call.Common().Args) > 0 && sameExpr(call.Common().Args[0], arg) {
			return true
		}
		p := call.Common().StaticCallee()
		if p == nil || !isModuleSSA(p) || edge != 0 || isCallTo(call, F) {
			continue
		}
		for ai, a := range call.Common().Args {
			if ai >= len(p.Params) || !sameExpr(a, arg) {
				continue
			}
			param := p.Params[ai]
			if c.predicateTrueImplies(p, func(pc []ctrlCond) bool { return c.testedFalse(pc, F, param) }) {
				return true
			}
		}
	}
	return false
}
