package main

// typefacts: which object.Type tags an interface value is known to have at a program point,
// from dominating tests of v.Type() against constants (if / switch arms / boolean aliases).

import (
	"go/token"
	"go/types"

	"golang.org/x/tools/go/ssa"
)

// typeCallsOn lists calls v.Type() (object.Object's tag method) on value v inside fn.
func (c *Ctx) typeCallsOn(v ssa.Value) []ssa.Value {
	var res []ssa.Value
	refs := v.Referrers()
	if refs == nil {
		return nil
	}
	for _, ref := range *refs {
		call, ok := ref.(*ssa.Call)
		if !ok {
			continue
		}
		cc := call.Common()
		if cc.IsInvoke() && cc.Value == v && cc.Method.Name() == "Type" && len(cc.Args) == 0 {
			res = append(res, call)
		}
	}
	return res
}

// tagsAt: the set of tag constants value v is known to be restricted to at block b
// (known=false when no dominating test restricts it).
func (c *Ctx) tagsAt(v ssa.Value, b *ssa.BasicBlock) (map[int64]bool, bool) {
	var result map[int64]bool
	for _, t := range c.typeCallsOn(v) {
		for _, ref := range *t.Referrers() {
			bin, ok := ref.(*ssa.BinOp)
			if !ok || (bin.Op != token.EQL && bin.Op != token.NEQ) {
				continue
			}
			var k int64
			var isK bool
			if bin.X == t {
				k, isK = constInt(bin.Y)
			} else {
				k, isK = constInt(bin.X)
			}
			if !isK {
				continue
			}
			for _, r2 := range *bin.Referrers() {
				ifi, ok := r2.(*ssa.If)
				if !ok {
					continue
				}
				edge := 0
				if bin.Op == token.NEQ {
					edge = 1
				}
				if onEdge(ifi.Block(), edge, b) {
					if result == nil {
						result = map[int64]bool{}
					}
					result[k] = true
				}
			}
		}
	}
	if result == nil {
		return nil, false
	}
	return result, true
}

// tagConst returns the value of object.<name>.
func (c *Ctx) tagConst(name string) int64 {
	k := c.Const("object", name)
	v, _ := constInt64(k)
	return v
}

func constInt64(k *types.Const) (int64, bool) {
	v := k.Val()
	if i, ok := constantInt64(v); ok {
		return i, true
	}
	return 0, false
}
