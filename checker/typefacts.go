package main

// typefacts: which object.Type tags an interface value is known to have at a program point,
// from dominating tests of v.Type() against constants (if / switch arms / boolean aliases).

import (
	"go/token"
	"go/types"

	"golang.org/x/tools/go/ssa"
)

// typeCallsOn lists calls v.Type() (object.Object's tag method) on value v inside fn.
func (c *Ctx) typeCallsOn(v ssa.Value) []ssa.Value {
	var res []ssa.Value
	refs := v.Referrers()
	if refs == nil {
		return nil
	}
	for _, ref := range *refs {
		call, ok := ref.(*ssa.Call)
		if !ok {
			continue
		}
		cc := call.Common()
		if cc.IsInvoke() && cc.Value == v && cc.Method.Name() == "Type" && len(cc.Args) == 0 {
			res = append(res, call)
		}
	}
	return res
}

// tagsAt: the set of tag constants value v is known to be restricted to at block b
// (known=false when no dominating test restricts it).
func (c *Ctx) tagsAt(v ssa.Value, b *ssa.BasicBlock) (map[int64]bool, bool) {
	var result map[int64]bool
	for _, t := range c.typeCallsOn(v) {
		for _, ref := range *t.Referrers() {
			bin, ok := ref.(*ssa.BinOp)
			if !ok || (bin.Op != token.EQL && bin.Op != token.NEQ) {
				continue
			}
			var k int64
			var isK bool
			if bin.X == t {
				k, isK = constInt(bin.Y)
			} else {
				k, isK = constInt(bin.X)
			}
			if !isK {
				continue
			}
			for _, r2 := range *bin.Referrers() {
				ifi, ok := r2.(*ssa.If)
				if !ok {
					continue
				}
				edge := 0
				if bin.Op == token.NEQ {
					edge = 1
				}
				if onEdge(ifi.Block(), edge, b) {
					if result == nil {
						result = map[int64]bool{}
					}
					result[k] = true
				}
			}
		}
	}
	if result == nil {
		return nil, false
	}
	return result, true
}

// tagConst returns the value of object.<name>.
func (c *Ctx) tagConst(name string) int64 {
	k := c.Const("object", name)
	v, _ := constInt64(k)
	return v
}

func constInt64(k *types.Const) (int64, bool) {
	v := k.Val()
	if i, ok := constantInt64(v); ok {
		return i, true
	}
	return 0, false
}

// tagExcludedAt: at block b, value v is known NOT to have tag k (false edge of v.Type()==k or
// true edge of v.Type()!=k).
func (c *Ctx) tagExcludedAt(v ssa.Value, k int64, b *ssa.BasicBlock) bool {
	for _, t := range c.typeCallsOn(v) {
		for _, ref := range *t.Referrers() {
			bin, ok := ref.(*ssa.BinOp)
			if !ok || (bin.Op != token.EQL && bin.Op != token.NEQ) {
				continue
			}
			var kk int64
			var isK bool
			if bin.X == t {
				kk, isK = constInt(bin.Y)
			} else {
				kk, isK = constInt(bin.X)
			}
			if !isK || kk != k {
				continue
			}
			for _, r2 := range *bin.Referrers() {
				ifi, ok := r2.(*ssa.If)
				if !ok {
					continue
				}
				edge := 1
				if bin.Op == token.NEQ {
					edge = 0
				}
				if onEdge(ifi.Block(), edge, b) {
					return true
				}
			}
		}
	}
	// positive knowledge of other tags also excludes k
	if tags, known := c.tagsAt(v, b); known && !tags[k] {
		return true
	}
	return false
}

// controlling lists the (If block, edge) pairs whose edge block b is confined to.
type ctrlCond struct {
	If   *ssa.If
	Edge int // 0 true, 1 false
}

func controlling(b *ssa.BasicBlock) []ctrlCond {
	var res []ctrlCond
	for _, ib := range b.Parent().Blocks {
		ifi, ok := ib.Instrs[len(ib.Instrs)-1].(*ssa.If)
		if !ok {
			continue
		}
		for e := 0; e < 2; e++ {
			if onEdge(ib, e, b) {
				res = append(res, ctrlCond{ifi, e})
			}
		}
	}
	return res
}
