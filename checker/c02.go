package main

import (
	"fmt"
	"go/ast"
	"go/constant"
	"go/token"
	"go/types"
	"sort"
	"strconv"
	"strings"

	"golang.org/x/tools/go/ssa"
)

// goQuoteEscapes: the single-letter escapes strconv.Quote can emit (its documented contract:
// \a \b \f \n \r \t \v \\ \" plus \xNN, \uNNNN, \UNNNNNNNN) with the byte each denotes.
var goQuoteEscapes = map[byte]int{'a': 7, 'b': 8, 'f': 12, 'n': 10, 'r': 13, 't': 9, 'v': 11, '\\': 92, '"': 34}

// escapeDecoding simulates readString's handling of `\L` for a concrete letter L and reports
// what is appended to the result: ("byte", value) / ("hexbyte",0) / ("rune16",0) / ("rune32",0) / ("identity",0).
func (c *Ctx) escapeDecoding(fn *ssa.Function, L byte) (string, int, string) {
	readChar := c.Fn("lexer", "Lexer.readChar")
	// the escape letter: a readChar call in a block entered on the true edge of `ch == '\\'`
	var esc *ssa.Call
	for _, b := range fn.Blocks {
		for _, in := range b.Instrs {
			call, ok := in.(*ssa.Call)
			if !ok || !isCallTo(call, readChar) {
				continue
			}
			for _, cc := range controlling(b) {
				if bin, ok := cc.Cond.(*ssa.BinOp); ok && bin.Op == token.EQL && cc.Edge == 0 {
					if k, ok := constInt(bin.Y); ok && k == '\\' {
						esc = call
					}
				}
			}
		}
	}
	if esc == nil {
		return "", 0, "no escape-letter read found after a backslash test"
	}
	b := esc.Block()
	var prev *ssa.BasicBlock
	for steps := 0; steps < 64; steps++ {
		// a write in this block?
		for _, in := range b.Instrs {
			call, ok := in.(*ssa.Call)
			if !ok {
				continue
			}
			obj := calleeObj(call)
			if obj == nil || obj.Pkg() == nil || obj.Pkg().Path() != "strings" {
				continue
			}
			switch obj.Name() {
			case "WriteByte":
				v := call.Common().Args[1]
				if phi, ok := v.(*ssa.Phi); ok && phi.Block() == b && prev != nil {
					for i, p := range b.Preds {
						if p == prev {
							v = phi.Edges[i]
						}
					}
				}
				if k, ok := constInt(v); ok {
					return "byte", int(k), ""
				}
				if v == ssa.Value(esc) {
					return "identity", 0, ""
				}
				if vc, ok := v.(*ssa.Call); ok {
					if o := calleeObj(vc); o != nil && o.Name() == "readHex" {
						return "hexbyte", 0, ""
					}
					// a pure helper of the package applied to the escape letter (the table moved into a function): executed
					if h := vc.Common().StaticCallee(); h != nil && h.Pkg == fn.Pkg && len(h.Params) == 1 && len(vc.Common().Args) == 1 && vc.Common().Args[0] == ssa.Value(esc) {
						if val, ok := c.ssaEval(h, []int64{int64(L)}, 0); ok {
							if val == int64(L) {
								return "identity", 0, ""
							}
							return "byte", int(val), ""
						}
					}
				}
				return "other", 0, "unrecognised value written: " + v.String()
			case "WriteRune":
				v := call.Common().Args[1]
				if vc, ok := v.(*ssa.Call); ok {
					if o := calleeObj(vc); o != nil {
						switch o.Name() {
						case "readUnicode16":
							return "rune16", 0, ""
						case "readUnicode32":
							return "rune32", 0, ""
						case "readHex":
							return "runehex", 0, ""
						}
					}
				}
				if cv, ok := v.(*ssa.Convert); ok {
					if vc, ok := cv.X.(*ssa.Call); ok {
						if o := calleeObj(vc); o != nil && o.Name() == "readHex" {
							return "runehex", 0, ""
						}
					}
				}
				return "other", 0, "unrecognised rune written"
			}
		}
		// follow the branch for this letter
		var next *ssa.BasicBlock
		switch last := b.Instrs[len(b.Instrs)-1].(type) {
		case *ssa.If:
			bin, ok := last.Cond.(*ssa.BinOp)
			if !ok || bin.Op != token.EQL || bin.X != ssa.Value(esc) {
				return "", 0, "a branch that does not test the escape letter"
			}
			k, ok := constInt(bin.Y)
			if !ok {
				return "", 0, "escape letter compared with a non-constant"
			}
			if int(k) == int(L) {
				next = b.Succs[0]
			} else {
				next = b.Succs[1]
			}
		case *ssa.Jump:
			next = b.Succs[0]
		default:
			return "", 0, "path ends before anything is appended"
		}
		prev, b = b, next
	}
	return "", 0, "path too long"
}

func runC02(c *Ctx, r *Report) {
	r.Rule("C02.R9", "left associativity is printed: in InfixExpression.PrettyPrint some path from the print of Left to the print of Right raises PrintState.ExpressionPrecedence, so that a right operand of the same precedence keeps its parentheses")
	r.Rule("C02.R10", "a missing optional operand prints as nothing: on the edge where InfixExpression.Right is nil (open ended slice) no text is printed")
	c.checkInfixPrinter(r)
	r.Rule("C02.R11", "one statement stands for its block only when it is alone: in packages ast and object every constant-index access k into the Statements slice of an ast.Statements lies on the edge where len of that slice == k+1")
	c.checkSingleStatementAccess(r, "C02.R11")
	r.Rule("C03.R8", "(shared with C03) the `(` and `[` whitespace guards of parseExpression use the same predicates: what the printer writes between two statements trips both")
	c.checkSiblingWhitespaceGuards(r, "C03.R8")
	r.Rule("C02.R12", "string literals are printed in the form the lexer decodes: in StringLiteral.PrettyPrint the token text reaches the output only as the result of strconv.Quote")
	c.checkStringsPrintedQuoted(r, "C02.R12")
	r.Rule("C02.R1", "visitor field coverage: every child-carrying field of every syntax-node type (nodes, node lists, blocks, names, maps of nodes, the previous token of a postfix) is read by that type's PrettyPrint or the same-type helpers it calls")
	r.Rule("C02.R2", "operator nodes (those built by infix/postfix-registered parse functions and the prefix-operator node) consult the enclosing precedence to decide on parentheses and set their own precedence before printing their left-position child")
	r.Rule("C02.R3", "table agreement: every token type an operator node can carry into needParen has an entry in ast.Precedences (needParen panics otherwise)")
	r.Rule("C02.R4", "escape alphabets: every escape strconv.Quote can emit is decoded by the lexer's readString to the byte(s) it denotes: \\a \\b \\f \\n \\r \\t \\v to their control bytes, \\\\ and \\\" to themselves, \\x to one raw byte, \\u and \\U to a rune")
	r.Rule("C02.R6", "a value-less return ends its block: every path of parseReturnStatement that returns without storing ReturnValue shifts no token and is selected by a test that the next token is a block closer (}, end of input, end of line) or a token with no prefix parse function (the next statement then fails to parse); otherwise `return` <newline> `x` re-parses as `return x`")
	r.Rule("C02.R7", "the enclosing precedence is scoped: a printer that stores to PrintState.ExpressionPrecedence (directly or through needParen, which returns the previous value) stores the value it found back on every path to a return")
	r.Rule("C02.R8", "no print after an in-place rewrite: a tree passed to a function that stores into the nodes it is given (State.DefineMacros removes definitions from the program) is not pretty-printed afterwards in the same function")
	r.Rule("C02.R5", "statement separation: between two consecutive statements of a block a separator is emitted on every path in long form (space or newline) and in compact form; the 'previous statement' used for that decision is the previous sibling (it is recorded after the statement's own children are printed)")

	astPkg := c.P("ast")
	nodeIface := c.TypeNamed("ast", "Node")
	tr := c.TokRel()

	// ---- R1 ----
	isChildField := func(t types.Type) bool {
		switch u := t.(type) {
		case *types.Named:
			return types.Identical(u, nodeIface)
		case *types.Pointer:
			if n, ok := u.Elem().(*types.Named); ok {
				return shortPkg(n.Obj().Pkg()) == "ast" || (shortPkg(n.Obj().Pkg()) == "token" && n.Obj().Name() == "Token")
			}
		case *types.Slice:
			return types.Identical(u.Elem(), nodeIface)
		case *types.Map:
			return types.Identical(u.Key(), nodeIface) || types.Identical(u.Elem(), nodeIface)
		}
		return false
	}
	nTypes := 0
	for _, name := range astPkg.Types.Scope().Names() {
		tn, ok := astPkg.Types.Scope().Lookup(name).(*types.TypeName)
		if !ok {
			continue
		}
		named, ok := tn.Type().(*types.Named)
		if !ok {
			continue
		}
		st, ok := named.Underlying().(*types.Struct)
		if !ok {
			continue
		}
		if !types.Implements(named, nodeIface.Underlying().(*types.Interface)) && !types.Implements(types.NewPointer(named), nodeIface.Underlying().(*types.Interface)) {
			continue
		}
		pp := c.FnOpt("ast", name+".PrettyPrint")
		if pp == nil {
			continue
		}
		var required []int
		for i := 0; i < st.NumFields(); i++ {
			if isChildField(st.Field(i).Type()) {
				required = append(required, i)
			}
		}
		if len(required) == 0 || name == "Base" {
			continue
		}
		nTypes++
		fn := c.SSAFn(pp)
		if obj := fn.Object(); obj != nil && obj.(*types.Func) != pp {
			continue
		}
		// fields read in PrettyPrint and in same-receiver helpers
		read := map[int]bool{}
		visited := map[*ssa.Function]bool{}
		var visit func(f *ssa.Function)
		visit = func(f *ssa.Function) {
			if visited[f] {
				return
			}
			visited[f] = true
			eachInstr(f, func(in ssa.Instruction) {
				switch x := in.(type) {
				case *ssa.FieldAddr:
					if n := namedStruct(x.X.Type()); n != nil && n.Obj() == tn {
						read[x.Field] = true
					}
				case *ssa.Field:
					if n, ok := x.X.Type().(*types.Named); ok && n.Obj() == tn {
						read[x.Field] = true
					}
				case *ssa.Call:
					if sc := x.Common().StaticCallee(); sc != nil && sc.Signature.Recv() != nil {
						rt := sc.Signature.Recv().Type()
						if p, ok := rt.(*types.Pointer); ok {
							rt = p.Elem()
						}
						if n, ok := rt.(*types.Named); ok && n.Obj() == tn {
							visit(sc)
						}
					}
				}
			})
		}
		visit(fn)
		for _, i := range required {
			r.Check(read[i], "C02.R1", funcName(pp), "field "+name+"."+st.Field(i).Name()+" is printed", c.Pos(fn.Pos()),
				"the printer of "+name+" never reads its child "+st.Field(i).Name()+": that part of the program disappears when formatting")
		}
	}
	if nTypes < 12 {
		r.Undecided("C02.R1: only %d node types with children found", nTypes)
	}
	r.Floor("C02.R1", 20)

	// ---- R2 / R3 ----
	precKeys := c.precedenceKeys()
	if len(precKeys) < 20 {
		r.Undecided("ast.Precedences: only %d keys extracted", len(precKeys))
	}
	names := c.tokenTypeNames()
	// operator node types: built by functions registered infix/postfix, plus the node built by a
	// prefix-registered function that parses its operand at a constant precedence above LOWEST
	opTypes := map[string]bool{}
	for fn, regs := range tr.Keys {
		_, inf := regs["registerInfix"]
		_, post := regs["registerPostfix"]
		for _, tn := range nodeTypesBuiltBy(fn, 0) {
			if inf || post {
				opTypes[tn] = true
			}
		}
		if _, pre := regs["registerPrefix"]; pre && parsesOperandAbovelowest(c, fn) {
			for _, tn := range nodeTypesBuiltBy(fn, 0) {
				opTypes[tn] = true
			}
		}
	}
	var ops []string
	for tn := range opTypes {
		ops = append(ops, tn)
	}
	sort.Strings(ops)
	r.Note("C02.R2: operator node types derived from the parser registries: %s", strings.Join(ops, ", "))
	if len(ops) < 5 {
		r.Undecided("C02.R2: only %d operator node types derived", len(ops))
	}
	psT := c.TypeNamed("ast", "PrintState")
	needParen := c.Fn("ast", "PrintState.needParen")
	for _, tn := range ops {
		name := strings.TrimPrefix(tn, "*ast.")
		pp := c.FnOpt("ast", name+".PrettyPrint")
		if pp == nil {
			continue
		}
		fn := c.SSAFn(pp)
		// include same-type helpers (lambdaPrint)
		fns := []*ssa.Function{fn}
		eachInstr(fn, func(in ssa.Instruction) {
			if call, ok := in.(*ssa.Call); ok {
				if sc := call.Common().StaticCallee(); sc != nil && sc.Signature.Recv() != nil && sc != fn {
					rt := sc.Signature.Recv().Type()
					if n, ok := rt.(*types.Named); ok && n.Obj().Name() == name {
						fns = append(fns, sc)
					}
				}
			}
		})
		for _, f := range fns {
			// does this function print children?
			var firstChild ssa.Instruction
			eachInstr(f, func(in ssa.Instruction) {
				if call, ok := in.(*ssa.Call); ok {
					isChild := call.Common().IsInvoke() && call.Common().Method.Name() == "PrettyPrint"
					if sc := call.Common().StaticCallee(); sc != nil && isModuleSSA(sc) && (sc.Name() == "PrettyPrint" || sc.Name() == "ComaList" || sc.Name() == "PrintList") {
						isChild = true
					}
					if isChild && (firstChild == nil || instrDominates(in, firstChild)) {
						firstChild = in
					}
				}
			})
			if firstChild == nil {
				continue
			}
			if f != fn && name == "FunctionLiteral" && f.Name() != "lambdaPrint" {
				continue
			}
			if f == fn && name == "FunctionLiteral" {
				continue // the func(...) {...} form is a primary expression; only the lambda form is an operator
			}
			consults, raises := false, false
			eachInstr(f, func(in ssa.Instruction) {
				if isCallTo(in, needParen) {
					consults = true
					if instrDominates(in, firstChild) {
						raises = true
					}
				}
				if ld, ok := in.(*ssa.UnOp); ok && isFieldAddrOf(ld.X, psT, "ExpressionPrecedence") {
					// the loaded value feeds a comparison
					for _, ref := range *ld.Referrers() {
						if bin, ok := ref.(*ssa.BinOp); ok && (bin.Op == token.LSS || bin.Op == token.LEQ || bin.Op == token.GTR || bin.Op == token.GEQ) {
							consults = true
						}
					}
				}
				if st, ok := in.(*ssa.Store); ok && isFieldAddrOf(st.Addr, psT, "ExpressionPrecedence") && instrDominates(in, firstChild) {
					raises = true
				}
			})
			r.Check(consults, "C02.R2", ssaFuncName(f), name+" consults the enclosing precedence", c.Pos(f.Pos()),
				"the printer never compares its precedence with the enclosing one: when this construct is an operand of a tighter operator no parentheses are emitted and the text parses to a different tree (e.g. (a+b)(c) -> a + b(c))")
			r.Check(raises, "C02.R2", ssaFuncName(f), name+" sets its precedence before printing its first child", c.Pos(f.Pos()),
				"the left-position child is printed under the enclosing precedence: a looser operator inside it is not parenthesised")
		}
		// R3: tokens of this type ⊆ Precedences when its printer calls needParen
		callsNeedParen := false
		for _, f := range fns {
			if len(callsIn(f, needParen)) > 0 {
				callsNeedParen = true
			}
		}
		if callsNeedParen {
			ts := tr.Tokens[tn]
			var missing []string
			if ts.top {
				missing = append(missing, "<any token>")
			}
			for k := range ts.s {
				if !precKeys[k] {
					missing = append(missing, names[k])
				}
			}
			sort.Strings(missing)
			r.Check(len(missing) == 0, "C02.R3", "ast.Precedences", "every token of "+name+" has a precedence", c.Pos(fn.Pos()),
				"the parser builds "+name+" nodes for token(s) "+strings.Join(missing, ", ")+" that have no entry in ast.Precedences: needParen panics when such a node is printed")
		}
	}

	// ---- R4 ----
	{
		fn := c.SSAFn(c.Fn("lexer", "Lexer.readString"))
		fname := ssaFuncName(fn)
		var letters []int
		for L := range goQuoteEscapes {
			letters = append(letters, int(L))
		}
		letters = append(letters, 'x', 'u', 'U')
		sort.Ints(letters)
		for _, Li := range letters {
			L := byte(Li)
			kind, val, why := c.escapeDecoding(fn, L)
			desc := fmt.Sprintf("escape \\%c is decoded to what strconv.Quote means by it", L)
			ok := false
			switch L {
			case 'x':
				ok = kind == "hexbyte"
				if kind == "runehex" {
					why = "\\xNN is appended as a rune (UTF-8 encoded) instead of one raw byte: bytes >= 0x80, which strconv.Quote writes as \\xNN for invalid UTF-8, come back as two bytes"
				}
			case 'u':
				ok = kind == "rune16"
			case 'U':
				ok = kind == "rune32"
			default:
				want := goQuoteEscapes[L]
				ok = (kind == "byte" && val == want) || (kind == "identity" && want == int(L))
				if !ok && why == "" {
					if kind == "identity" {
						why = fmt.Sprintf("\\%c is read back as the letter %q itself, not as byte %d: a string containing that control byte changes when saved, formatted or recalled from history", L, L, want)
					} else {
						why = fmt.Sprintf("decoded as %s %d, expected byte %d", kind, val, want)
					}
				}
			}
			if !ok && why == "" {
				why = "decoded as " + kind
			}
			r.Check(ok, "C02.R4", fname, desc, c.Pos(fn.Pos()), why)
		}
		// writers use strconv.Quote
		for _, w := range []string{"StringLiteral.PrettyPrint"} {
			wf := c.SSAFn(c.Fn("ast", w))
			uses := false
			eachInstr(wf, func(in ssa.Instruction) {
				if call, ok := in.(*ssa.Call); ok && stdName(call) == "strconv.Quote" {
					uses = true
				}
			})
			r.Check(uses, "C02.R4", ssaFuncName(wf), "string literals are written with strconv.Quote", c.Pos(wf.Pos()), "the writer is no longer strconv.Quote: the reader's alphabet was checked against Quote's")
		}
	}
	r.Floor("C02.R4", 13)

	// ---- R5 ----
	c.checkStatementSeparation(r)

	// ---- R6 ----
	c.checkBareReturn(r)

	// ---- R7 ----
	c.checkPrecedenceScoping(r)

	// ---- R8 ----
	c.checkPrintAfterRewrite(r)
}

// checkPrintAfterRewrite: a tree that was handed to a function that rewrites it in place (DefineMacros
// removes the macro definitions from the program it is given) no longer is the program that was parsed;
// printing it afterwards does not give text that parses back to that program.
func (c *Ctx) checkPrintAfterRewrite(r *Report) {
	nodeIface := c.TypeNamed("ast", "Node")
	isAstPtr := func(t types.Type) bool {
		if types.Identical(t, nodeIface) {
			return true
		}
		if p, ok := t.(*types.Pointer); ok {
			if n, ok := p.Elem().(*types.Named); ok && n.Obj().Pkg() != nil && shortPkg(n.Obj().Pkg()) == "ast" {
				return true
			}
		}
		return false
	}
	// values that are the same tree: through assertions, interface boxing and phis
	var root func(v ssa.Value, depth int) ssa.Value
	root = func(v ssa.Value, depth int) ssa.Value {
		for i := 0; i < 8; i++ {
			switch x := v.(type) {
			case *ssa.MakeInterface:
				v = x.X
			case *ssa.ChangeInterface:
				v = x.X
			case *ssa.TypeAssert:
				v = x.X
			case *ssa.Extract:
				if ta, ok := x.Tuple.(*ssa.TypeAssert); ok {
					v = ta.X
				} else {
					return v
				}
			default:
				return v
			}
		}
		return v
	}
	// in-place rewriters: functions storing into a field of a node reached from a parameter
	mutators := map[*ssa.Function]int{}
	for _, fn := range c.ModuleSSAFuncs() {
		if fn.Pkg != nil && (shortPkg(fn.Pkg.Pkg) == "parser" || shortPkg(fn.Pkg.Pkg) == "ast") {
			continue // builders of new nodes / the copying rewriter (C13.R1)
		}
		for i, p := range fn.Params {
			if !isAstPtr(p.Type()) {
				continue
			}
			eachInstr(fn, func(in ssa.Instruction) {
				st, ok := in.(*ssa.Store)
				if !ok {
					return
				}
				fa, ok := st.Addr.(*ssa.FieldAddr)
				if !ok {
					return
				}
				if root(fa.X, 0) == ssa.Value(p) {
					mutators[fn] = i
				}
			})
		}
	}
	if len(mutators) == 0 {
		r.Undecided("C02.R8: no in-place tree rewriter found (State.DefineMacros expected)")
		return
	}
	n := 0
	for _, fn := range c.ModuleSSAFuncs() {
		var muts []*ssa.Call
		eachInstr(fn, func(in ssa.Instruction) {
			if call, ok := in.(*ssa.Call); ok {
				if sc := call.Common().StaticCallee(); sc != nil {
					if _, isM := mutators[sc]; isM {
						muts = append(muts, call)
					}
				}
			}
		})
		for _, m := range muts {
			n++
			sc := m.Common().StaticCallee()
			tree := root(m.Common().Args[mutators[sc]], 0)
			var bad ssa.Instruction
			eachInstr(fn, func(in ssa.Instruction) {
				call, ok := in.(ssa.CallInstruction)
				if !ok || bad != nil {
					return
				}
				cc := call.Common()
				name := ""
				var recv ssa.Value
				if cc.IsInvoke() {
					name, recv = cc.Method.Name(), cc.Value
				} else if obj := calleeObj(call); obj != nil && len(cc.Args) > 0 {
					name, recv = obj.Name(), cc.Args[0]
				}
				if name != "PrettyPrint" || recv == nil {
					return
				}
				if root(recv, 0) == tree && reachesInstr(m, in) {
					bad = in
				}
			})
			desc := "the tree given to " + sc.Name() + " is not printed afterwards"
			if bad != nil {
				r.Fail("C02.R8", ssaFuncName(fn), desc, c.Pos(instrPos(bad)), sc.Name()+" rewrites the tree it is given in place (it removes statements); the same tree is printed after that call: the printed text is not the program that was parsed (macro definitions are missing from the text kept for the history)")
			} else {
				r.Ok("C02.R8", ssaFuncName(fn), desc, c.Pos(m.Pos()))
			}
		}
	}
	if n == 0 {
		r.Undecided("C02.R8: no call to an in-place tree rewriter found")
	}
	r.Floor("C02.R8", 2)
}

// checkPrecedenceScoping: PrintState.ExpressionPrecedence is the precedence of the *enclosing* operator.
// A printer that changes it for its children puts the value it found back before it returns; otherwise
// the sibling printed next (the right operand of an infix expression) is printed under the wrong
// precedence and loses or gains parentheses.
func (c *Ctx) checkPrecedenceScoping(r *Report) {
	psT := c.TypeNamed("ast", "PrintState")
	idx := fieldIndex(psT, "ExpressionPrecedence")
	if idx < 0 {
		r.Undecided("C02.R7: ast.PrintState.ExpressionPrecedence not found")
		return
	}
	isField := func(v ssa.Value) bool {
		fa, ok := v.(*ssa.FieldAddr)
		return ok && fa.Field == idx && namedStruct(fa.X.Type()) != nil && namedStruct(fa.X.Type()).Obj() == psT.Obj()
	}
	var fns []*ssa.Function
	for _, fn := range c.ModuleSSAFuncs() {
		if fn.Pkg != nil && shortPkg(fn.Pkg.Pkg) == "ast" {
			fns = append(fns, fn)
		}
	}
	storesOf := func(fn *ssa.Function) []*ssa.Store {
		var res []*ssa.Store
		eachInstr(fn, func(in ssa.Instruction) {
			if st, ok := in.(*ssa.Store); ok && isField(st.Addr) {
				res = append(res, st)
			}
		})
		return res
	}
	// savers: functions that change the precedence and hand the previous value to their caller
	savers := map[*ssa.Function]int{} // result index carrying the old value
	entryLoads := func(fn *ssa.Function) map[ssa.Value]bool {
		res := map[ssa.Value]bool{}
		sts := storesOf(fn)
		eachInstr(fn, func(in ssa.Instruction) {
			ld, ok := in.(*ssa.UnOp)
			if !ok || !isField(ld.X) {
				return
			}
			for _, st := range sts {
				if reachesInstr(st, ld) {
					return // may observe a value written by this function
				}
			}
			res[ld] = true
		})
		return res
	}
	for _, fn := range fns {
		if len(storesOf(fn)) == 0 {
			continue
		}
		entry := entryLoads(fn)
		eachInstr(fn, func(in ssa.Instruction) {
			ret, ok := in.(*ssa.Return)
			if !ok {
				return
			}
			for i := range ret.Results {
				if entry[retVal(ret, i)] {
					savers[fn] = i
				}
			}
		})
	}
	n := 0
	for _, fn := range fns {
		sts := storesOf(fn)
		var saverCalls []*ssa.Call
		eachInstr(fn, func(in ssa.Instruction) {
			if call, ok := in.(*ssa.Call); ok {
				if sc := call.Common().StaticCallee(); sc != nil {
					if _, isSaver := savers[sc]; isSaver {
						saverCalls = append(saverCalls, call)
					}
				}
			}
		})
		if len(sts) == 0 && len(saverCalls) == 0 {
			continue
		}
		if _, isSaver := savers[fn]; isSaver {
			r.OkWhy("C02.R7", ssaFuncName(fn), "changes the precedence and returns the previous one", c.Pos(fn.Pos()), "the callers hold the restore obligation")
			n++
			continue
		}
		entry := entryLoads(fn)
		for _, call := range saverCalls {
			for _, ref := range *call.Referrers() {
				if ex, ok := ref.(*ssa.Extract); ok && ex.Index == savers[call.Common().StaticCallee()] {
					entry[ex] = true
				}
			}
		}
		isRestore := func(in ssa.Instruction) bool {
			st, ok := in.(*ssa.Store)
			if !ok || !isField(st.Addr) {
				return false
			}
			v := st.Val
			if phi, ok := v.(*ssa.Phi); ok {
				for _, e := range phi.Edges {
					if !entry[e] {
						return false
					}
				}
				return true
			}
			return entry[v]
		}
		var changes []ssa.Instruction
		for _, st := range sts {
			if !isRestore(st) {
				changes = append(changes, st)
			}
		}
		for _, call := range saverCalls {
			changes = append(changes, call)
		}
		cnt := 0
		for _, ch := range changes {
			n++
			cnt++
			desc := fmt.Sprintf("precedence change #%d is undone before returning", cnt)
			bad := mustPassBefore(ch, isRestore, isReturn)
			if bad != nil {
				r.Fail("C02.R7", ssaFuncName(fn), desc, c.Pos(instrPos(ch)), "a return is reachable with the enclosing precedence still replaced: the next sibling (the right operand of the enclosing operator) is printed under this node's precedence and e.g. loses the parentheses it needs", c.tracePath(bad)...)
			} else {
				r.Ok("C02.R7", ssaFuncName(fn), desc, c.Pos(instrPos(ch)))
			}
		}
	}
	if n < 6 {
		r.Undecided("C02.R7: only %d precedence changes found in package ast", n)
	}
	r.Floor("C02.R7", 6)
}

// checkBareReturn: the printer writes a value-less return as the bare keyword, and in file mode the
// parser reads `return` <newline> `x` as `return x`. The printed form is therefore only stable when
// nothing can follow a value-less return inside its block.
func (c *Ctx) checkBareReturn(r *Report) {
	fn := c.SSAFn(c.Fn("parser", "Parser.parseReturnStatement"))
	fname := ssaFuncName(fn)
	retT := c.TypeNamed("ast", "ReturnStatement")
	valIdx := fieldIndex(retT, "ReturnValue")
	nextToken := c.Fn("parser", "Parser.nextToken")
	peekTokenIs := c.Fn("parser", "Parser.peekTokenIs")
	expectPeek := c.Fn("parser", "Parser.expectPeek")
	if valIdx < 0 {
		r.Undecided("C02.R6: ast.ReturnStatement.ReturnValue not found")
		return
	}
	isValueStore := func(in ssa.Instruction) bool {
		st, ok := in.(*ssa.Store)
		if !ok {
			return false
		}
		fa, ok := st.Addr.(*ssa.FieldAddr)
		return ok && fa.Field == valIdx && namedStruct(fa.X.Type()) != nil && namedStruct(fa.X.Type()).Obj() == retT.Obj()
	}
	hasStore := false
	eachInstr(fn, func(in ssa.Instruction) {
		if isValueStore(in) {
			hasStore = true
		}
	})
	if !hasStore {
		r.Undecided("C02.R6: parseReturnStatement never stores ReturnValue")
		return
	}
	// token types with a prefix parse function: a statement can start with them
	prefix := map[int64]bool{}
	for _, regs := range c.TokRel().Keys {
		for k := range regs["registerPrefix"] {
			prefix[k] = true
		}
	}
	if len(prefix) < 10 {
		r.Undecided("C02.R6: only %d prefix registrations resolved", len(prefix))
		return
	}
	closers := map[int64]string{}
	for _, n := range []string{"RBRACE", "EOF", "EOL"} {
		if k, ok := constant.Int64Val(c.Const("token", n).Val()); ok {
			closers[k] = n
		}
	}
	type st struct {
		b       *ssa.BasicBlock
		shifted bool
		tests   string // terminator tests taken on their true edge
	}
	seen := map[st]bool{}
	nBare := 0
	var walk func(b *ssa.BasicBlock, shifted bool, tests []int64, trail []*ssa.BasicBlock)
	walk = func(b *ssa.BasicBlock, shifted bool, tests []int64, trail []*ssa.BasicBlock) {
		key := st{b, shifted, fmt.Sprint(tests)}
		if seen[key] {
			return
		}
		seen[key] = true
		trail = append(trail, b)
		for _, in := range b.Instrs {
			if isValueStore(in) {
				return // not a value-less return
			}
			if isCallTo(in, nextToken, expectPeek) {
				shifted = true
			}
			if ret, ok := in.(*ssa.Return); ok {
				nBare++
				desc := fmt.Sprintf("value-less return #%d leaves the token after it unread and only before a block closer or a token no statement starts with", nBare)
				var why []string
				if shifted {
					why = append(why, "a token is shifted on the way: the statement after it is parsed into the same block")
				}
				if len(tests) == 0 {
					why = append(why, "no test of the following token selects this path")
				}
				for _, k := range tests {
					if _, ok := closers[k]; ok {
						continue
					}
					if prefix[k] {
						why = append(why, fmt.Sprintf("token type %d after it can start the next statement", k))
					}
				}
				if len(why) > 0 {
					r.Fail("C02.R6", fname, desc, c.Pos(instrPos(ret)), strings.Join(why, "; ")+": a value-less return followed by a statement prints as `return` <newline> <statement>, which parses back as one return of that statement", c.tracePath(&pathResult{exit: ret, trace: trail})...)
				} else {
					r.Ok("C02.R6", fname, desc, c.Pos(instrPos(ret)))
				}
				return
			}
		}
		if ifi, ok := b.Instrs[len(b.Instrs)-1].(*ssa.If); ok {
			if call, isCall := ifi.Cond.(*ssa.Call); isCall && isCallTo(call, peekTokenIs) {
				if k, isK := constInt(call.Common().Args[1]); isK {
					walk(b.Succs[0], shifted, append(append([]int64{}, tests...), k), trail)
					walk(b.Succs[1], shifted, tests, trail)
					return
				}
			}
		}
		for _, s := range b.Succs {
			walk(s, shifted, tests, trail)
		}
	}
	walk(fn.Blocks[0], false, nil, nil)
	if nBare == 0 {
		r.Undecided("C02.R6: no value-less return path found in parseReturnStatement")
	}
	r.Floor("C02.R6", 4)
}

// precedenceKeys: token types with an entry in ast.Precedences (from the composite literal).
func (c *Ctx) precedenceKeys() map[int64]bool {
	res := map[int64]bool{}
	p := c.P("ast")
	for _, f := range p.Syntax {
		for _, d := range f.Decls {
			gd, ok := d.(*ast.GenDecl)
			if !ok {
				continue
			}
			for _, sp := range gd.Specs {
				vs, ok := sp.(*ast.ValueSpec)
				if !ok {
					continue
				}
				for i, n := range vs.Names {
					if n.Name != "Precedences" || i >= len(vs.Values) {
						continue
					}
					cl, ok := vs.Values[i].(*ast.CompositeLit)
					if !ok {
						continue
					}
					for _, e := range cl.Elts {
						kv, ok := e.(*ast.KeyValueExpr)
						if !ok {
							continue
						}
						if tv, ok := p.TypesInfo.Types[kv.Key]; ok && tv.Value != nil {
							if k, ok := constantInt64(tv.Value); ok {
								res[k] = true
							}
						}
					}
				}
			}
		}
	}
	return res
}

// nodeTypesBuiltBy: node types allocated (and returned) by a parse function, following static
// calls at the start of the function (parseLambdaExpression -> parseLambdaMulti).
func nodeTypesBuiltBy(fn *ssa.Function, depth int) []string {
	var res []string
	eachInstr(fn, func(in ssa.Instruction) {
		if al, ok := in.(*ssa.Alloc); ok {
			if n := namedStruct(al.Type()); n != nil && shortPkg(n.Obj().Pkg()) == "ast" && al.Heap {
				res = append(res, "*ast."+n.Obj().Name())
			}
		}
	})
	if len(res) == 0 && depth < 2 {
		eachInstr(fn, func(in ssa.Instruction) {
			if call, ok := in.(*ssa.Call); ok {
				if sc := call.Common().StaticCallee(); sc != nil && isModuleSSA(sc) && sc.Pkg == fn.Pkg && sc.Signature.Recv() != nil && len(res) == 0 && strings.HasPrefix(sc.Name(), "parse") {
					res = nodeTypesBuiltBy(sc, depth+1)
				}
			}
		})
	}
	// the first allocated type is the node the function is about (others are helpers such as block wrappers)
	if len(res) > 1 {
		res = res[:1]
	}
	return res
}

// parsesOperandAbovelowest: the function calls parseExpression with a constant precedence other than LOWEST.
func parsesOperandAbovelowest(c *Ctx, fn *ssa.Function) bool {
	pe := c.Fn("parser", "Parser.parseExpression")
	lowest, _ := constInt64(c.Const("ast", "LOWEST"))
	found := false
	for _, call := range callsIn(fn, pe) {
		if k, ok := constInt(call.Common().Args[1]); ok && k > lowest {
			found = true
		}
	}
	return found
}

func (c *Ctx) checkStatementSeparation(r *Report) {
	psT := c.TypeNamed("ast", "PrintState")
	stmts := c.SSAFn(c.Fn("ast", "Statements.PrettyPrint"))
	sname := ssaFuncName(stmts)
	long := c.FnOpt("ast", "prettyPrintLongForm") // optional: may have been inlined into Statements.PrettyPrint
	compact := c.Fn("ast", "prettyPrintCompact")
	// (a) each mode's separator function writes on every path when i > 0
	isWrite := func(in ssa.Instruction) bool {
		call, ok := in.(*ssa.Call)
		if !ok {
			return false
		}
		if call.Common().IsInvoke() && call.Common().Method.Name() == "Write" {
			return true
		}
		if obj := calleeObj(call); obj != nil && (obj.Name() == "Println" || obj.Name() == "Print") && isModulePkg(obj.Pkg()) {
			return true
		}
		return false
	}
	for _, sep := range []*types.Func{long, compact} {
		if sep == nil {
			r.Abstain("C02.R5", sname, "a separator is written before every statement but the first (long form)", c.Pos(stmts.Pos()),
				"the long-form separator logic is no longer a function of its own (inlined into Statements.PrettyPrint): the path search of this rule is written for the helper's parameter i and is not re-targeted; the compact form, the previous-statement typestate and the shared idempotence rules still apply")
			continue
		}
		fn := c.SSAFn(sep)
		// path search from entry to return avoiding writes, for a statement that is not the first: the last
		// parameter is the statement's index (i > 0 assumed true) or a "first statement" flag (assumed to have the
		// value the caller's loop gives it after the first iteration)
		iParam := fn.Params[len(fn.Params)-1]
		flagVal, flagKnown := false, false
		if bt, ok := iParam.Type().Underlying().(*types.Basic); ok && bt.Kind() == types.Bool {
			// the flag's value on the loop's back edge at the call site(s)
			for _, site := range c.staticCallSites(fn) {
				arg := site.Common().Args[len(site.Common().Args)-1]
				if phi, ok := arg.(*ssa.Phi); ok {
					for ei, e := range phi.Edges {
						k, isK := e.(*ssa.Const)
						if !isK {
							continue
						}
						bv, isB := constBool(k)
						// the edge that comes from inside the loop (its predecessor is dominated by the phi's block)
						if isB && phi.Block().Dominates(phi.Block().Preds[ei]) {
							flagVal, flagKnown = bv, true
						}
					}
				}
			}
		}
		// evalCond: the value of a condition for a non-first statement, when it is decided by the parameter alone
		var evalCond func(v ssa.Value, from, at *ssa.BasicBlock, depth int) (bool, bool)
		evalCond = func(v ssa.Value, from, at *ssa.BasicBlock, depth int) (bool, bool) {
			if depth > 4 {
				return false, false
			}
			switch x := v.(type) {
			case *ssa.Const:
				return constBool(x)
			case *ssa.Parameter:
				if x == iParam && flagKnown {
					return flagVal, true
				}
			case *ssa.UnOp:
				if x.Op == token.NOT {
					if bv, ok := evalCond(x.X, from, at, depth+1); ok {
						return !bv, true
					}
				}
			case *ssa.BinOp:
				if x.X == ssa.Value(iParam) && x.Op == token.GTR {
					if k, ok := constInt(x.Y); ok && k == 0 {
						return true, true
					}
				}
			case *ssa.Phi:
				if x.Block() == at && from != nil {
					for i, p := range at.Preds {
						if p == from {
							return evalCond(x.Edges[i], nil, p, depth+1)
						}
					}
				}
				// `i > 0 || x`: a constant-true edge coming from the block where i > 0 held
				for i, e := range x.Edges {
					if k, ok := e.(*ssa.Const); ok && k.Value != nil && k.Value.ExactString() == "true" {
						pb := x.Block().Preds[i]
						if pif, ok := pb.Instrs[len(pb.Instrs)-1].(*ssa.If); ok {
							if bv, ok := evalCond(pif.Cond, nil, pb, depth+1); ok && bv && pb.Succs[0] == x.Block() {
								return true, true
							}
						}
					}
				}
			}
			return false, false
		}
		type wstate struct{ b, from *ssa.BasicBlock }
		seen := map[wstate]bool{}
		var trail []*ssa.BasicBlock
		var walk func(b, from *ssa.BasicBlock) []*ssa.BasicBlock
		walk = func(b, from *ssa.BasicBlock) []*ssa.BasicBlock {
			if seen[wstate{b, from}] {
				return nil
			}
			seen[wstate{b, from}] = true
			trail = append(trail, b)
			defer func() { trail = trail[:len(trail)-1] }()
			for _, in := range b.Instrs {
				if isWrite(in) {
					return nil
				}
				if ret, ok := in.(*ssa.Return); ok {
					// returning true from the compact helper means "skip this statement" (comments): no separator needed
					if len(ret.Results) == 1 {
						if k, ok := ret.Results[0].(*ssa.Const); ok && k.Value != nil && k.Value.ExactString() == "true" {
							return nil
						}
					}
					return append([]*ssa.BasicBlock(nil), trail...)
				}
			}
			if ifi, ok := b.Instrs[len(b.Instrs)-1].(*ssa.If); ok {
				if bv, ok := evalCond(ifi.Cond, from, b, 0); ok {
					if bv {
						return walk(b.Succs[0], b)
					}
					return walk(b.Succs[1], b)
				}
			}
			for _, s := range b.Succs {
				if p := walk(s, b); p != nil {
					return p
				}
			}
			return nil
		}
		bad := walk(fn.Blocks[0], nil)
		mode := "long form"
		if sep == compact {
			mode = "compact form"
		}
		if bad != nil {
			r.Fail("C02.R5", ssaFuncName(fn), "a separator is written before every statement but the first ("+mode+")", c.Pos(fn.Pos()),
				"for a statement that is not the first of its block there is a path that writes nothing between it and the previous statement: adjacent statements fuse (a b -> ab, a - -b -> a--b, return x / y -> return xy) and the text parses differently", blockTrail(c, bad)...)
		} else {
			r.Ok("C02.R5", ssaFuncName(fn), "a separator is written before every statement but the first ("+mode+")", c.Pos(fn.Pos()))
		}
	}
	// (a') the compact form drops the separator after an expression only behind a closing brace or bracket: the
	// texts compared with ps.last (in the compact separator function and the helpers of its package) are among
	// "}" and "]". (That a separator may be dropped at all is the known finding above; a larger set - after ")"
	// the next statement's "(" or "[" turns two statements into a call or an index - is a different violation.)
	if compact != nil {
		cfn := c.SSAFn(compact)
		var extra []string
		nCmp := 0
		for _, fn := range c.localHelpers(cfn, 2) {
			eachInstr(fn, func(in ssa.Instruction) {
				bin, ok := in.(*ssa.BinOp)
				if !ok || (bin.Op != token.EQL && bin.Op != token.NEQ) {
					return
				}
				for _, pair := range [][2]ssa.Value{{bin.X, bin.Y}, {bin.Y, bin.X}} {
					ld, ok := pair[0].(*ssa.UnOp)
					if !ok || !isFieldAddrOf(ld.X, psT, "last") {
						continue
					}
					k, ok := pair[1].(*ssa.Const)
					if !ok || k.Value == nil || k.Value.Kind() != constant.String {
						continue
					}
					nCmp++
					if str := constant.StringVal(k.Value); str != "}" && str != "]" {
						extra = append(extra, strconv.Quote(str))
					}
				}
			})
		}
		sort.Strings(extra)
		if nCmp > 0 {
			r.Check(len(extra) == 0, "C02.R5", ssaFuncName(cfn), "the compact separator is dropped only behind a closing brace or bracket", c.Pos(cfn.Pos()),
				"the compact form also decides on the previous text being "+strings.Join(extra, ", ")+": after a closing parenthesis the next statement's opening parenthesis or bracket makes the two statements one call or index expression (x=f(1) then (a,b)=>a+b prints as x=f(1)(a,b)=>{a+b})")
		}
	}
	// (b) ps.prev typestate: after the store of prev, no child print before the next separator decision
	var prevStore *ssa.Store
	eachInstr(stmts, func(in ssa.Instruction) {
		if st, ok := in.(*ssa.Store); ok && isFieldAddrOf(st.Addr, psT, "prev") {
			prevStore = st
		}
	})
	if prevStore == nil {
		r.Fail("C02.R5", sname, "the previous statement is recorded", c.Pos(stmts.Pos()), "ps.prev is never set in Statements.PrettyPrint")
	} else {
		bad := mustPassBefore(prevStore, func(in ssa.Instruction) bool {
			if isCallTo(in, long, compact) || isReturn(in) {
				return true
			}
			// with the long-form helper inlined, the next separator decision is whatever follows the loop header:
			// going round the loop is enough (the store then follows the print of its own iteration)
			if long == nil {
				b := in.Block()
				if len(b.Instrs) > 0 && b.Instrs[0] == in {
					for _, p := range b.Preds {
						if b.Dominates(p) {
							return true
						}
					}
				}
			}
			return false
		}, func(in ssa.Instruction) bool {
			call, ok := in.(*ssa.Call)
			return ok && call.Common().IsInvoke() && call.Common().Method.Name() == "PrettyPrint"
		})
		if bad != nil {
			r.Fail("C02.R5", sname, "the previous statement is recorded after its children are printed", c.Pos(prevStore.Pos()),
				"ps.prev is set before the statement is printed: printing a nested block overwrites it with the block's own last statement, so the separator decision for the next sibling looks at the wrong node (missing space in compact form, wrong line joining in long form)", c.tracePath(bad)...)
		} else {
			r.Ok("C02.R5", sname, "the previous statement is recorded after its children are printed", c.Pos(prevStore.Pos()))
		}
	}
}

func init() {
	register("C02", &propDef{
		explain: "Structural conditions of print-then-parse round trip, each decided on the printers' code: every child-carrying field of every node type is printed; operator nodes (derived from the parser's infix/postfix registries) consult and raise the precedence state; tokens reaching needParen all have a precedence; every escape strconv.Quote can emit is decoded by the lexer to the bytes it denotes (simulated per escape letter on readString's SSA); a separator is written between consecutive statements in both modes and the 'previous statement' is the previous sibling. The known gaps of the pinned tree (call and lambda printers ignore precedence, compact mode omits needed separators) are reported as known findings. Tree equality for all inputs is not decided. Also: a value-less return ends its block (parseReturnStatement shifts no token on that path and the next token is a block closer or cannot start a statement), since its printed form absorbs a following statement. Also: the enclosing precedence is scoped (a printer that changes ExpressionPrecedence restores the value it found on every return path).",
		assume:  []string{"strconv.Quote's escape alphabet is Go's documented one", "superfluous parentheses and spaces are harmless; only missing ones are reported"},
		run:     runC02,
	})
}
