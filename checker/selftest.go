package main

// Mutation self-test (thorough tier): filled in selftest_ops.go.

func runSelfTest(id string, c *Ctx, r *Report, verif string) map[string]any {
	return selfTestImpl(id, c, r, verif)
}
