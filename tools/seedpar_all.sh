#!/bin/bash
# usage: tools/seedpar_all.sh [N]  -- runs tools/seedpar.sh in N (default 4) parallel chunks and prints the seeds that
# were NOT reported (neutralised ones and misses) plus any anomalous demonstration. ~30 min for 143 seeds.
# (demonstrations share a few /tmp paths: an odd "demo without change exit=1" is a collision, re-run that seed alone
#  with tools/seedcheck.sh)
N=${1:-4}
for k in $(seq 0 $((N-1))); do (/verif/tools/seedpar.sh $k $N > /tmp/seedpar_$k.out 2>&1 &) ; done
while pgrep -f tools/seedpar.sh >/dev/null; do sleep 20; done
cat /tmp/seedpar_*.out | sort | awk -F'|' '{print $1, $3, $4}' | grep -v "violations=[1-9]"
echo "---"
cat /tmp/seedpar_*.out | grep -v "exit=0 (want 0); test suite with change exit=0 (want 0); demo with change exit=[1-9]" | awk -F'|' '{print $1,$2}'
echo "reported: $(cat /tmp/seedpar_*.out | grep -c 'violations=[1-9]') of $(ls -d /verif/seeded/*/ | wc -l)"
