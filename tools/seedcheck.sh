#!/bin/bash
# usage: tools/seedcheck.sh <seed-dir> <prop> [demo-cmd]
# Confirms a seeded change in a scratch worktree of /repo HEAD: demo passes without it, the change
# applies, builds, passes the whole test suite, the demo fails with it; then runs the check on it.
SEED="$(cd "$1" && pwd)"; PROP="$2"; DEMO="${3:-bash seed/demo.sh}"
. /verif/env.sh
S=$(mktemp -d /tmp/sc.XXXXXX); rmdir "$S"
git -C /repo worktree add -q --detach "$S" HEAD || exit 3
trap 'git -C /repo worktree remove --force "$S" 2>/dev/null; rm -rf "$S" /tmp/grol_*_demo' EXIT
mkdir -p "$S/seed" && cp -r "$SEED"/. "$S/seed/"
cd "$S"
if [ -f seed/demo_test.go ] && [ -n "$DEMO_PKG" ]; then cp seed/demo_test.go "$DEMO_PKG/zz_demo_test.go"; fi
eval "$DEMO" >/tmp/sc_demo0.log 2>&1; D0=$?
git apply --exclude='seed/*' seed/patch.diff 2>/tmp/sc_apply.log || patch -p1 -s < seed/patch.diff || { echo "SEED: patch does not apply"; cat /tmp/sc_apply.log; exit 3; }
go build ./... || { echo "SEED: does not build"; exit 3; }
if [ -f seed/demo_test.go ] && [ -n "$DEMO_PKG" ]; then mv "$DEMO_PKG/zz_demo_test.go" /tmp/zz_demo_test.go; fi
go test -vet=off -count=1 $(go list ./... | grep -v /seed) >/tmp/sc_test.log 2>&1; T=$?
if [ -f /tmp/zz_demo_test.go ] && [ -n "$DEMO_PKG" ]; then mv /tmp/zz_demo_test.go "$DEMO_PKG/zz_demo_test.go"; fi
eval "$DEMO" >/tmp/sc_demo1.log 2>&1; D1=$?
echo "SEED: demo without change exit=$D0 (want 0); test suite with change exit=$T (want 0); demo with change exit=$D1 (want !=0)"
[ $T -ne 0 ] && grep -v '^ok\|no test files' /tmp/sc_test.log | head -20
if [ -f "$DEMO_PKG/zz_demo_test.go" ]; then rm -f "$DEMO_PKG/zz_demo_test.go"; fi
mkdir -p "$S.out"
VERIF_REPO="$S" VERIF_OUT="$S.out" /verif/run.sh "$PROP" "${MUT_TIER:-quick}" | grep -v '^    path' | cut -c1-300 | tail -${MUT_LINES:-6}
echo "check exit=${PIPESTATUS[0]}"
rm -rf "$S.out"
