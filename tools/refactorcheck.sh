#!/bin/bash
# usage: tools/refactorcheck.sh <name>   -- applies a behaviour-preserving refactoring (tools/refactors.py) to a
# scratch copy, checks build + tests, and runs every check: all must stay silent (false-alarm resistance).
set -u
S=$(mktemp -d /tmp/vref.XXXXXX); trap 'rm -rf "$S"' EXIT
rsync -a --exclude .git /repo/ "$S/repo/"; mkdir -p "$S/out"
python3 /verif/tools/refactors.py "$S/repo" "$1" || { echo "REFACTOR: cannot apply $1"; exit 3; }
. /verif/env.sh
(cd "$S/repo" && go build ./... && go test -vet=off -count=1 ./... > "$S/test.log" 2>&1) || { grep -v '^ok\|no test files' "$S/test.log" | head -20; echo "REFACTOR: $1 does not build/pass tests"; exit 3; }
VERIF_REPO="$S/repo" VERIF_OUT="$S/out" /verif/run.sh all quick | grep -v '^KNOWN\|^    path' | grep 'violation:\|UNDECIDED\|VIOLATION' | cut -c1-260
echo "refactor $1: exit=${PIPESTATUS[0]}"
