import sys,re,os
root=sys.argv[1]; which=sys.argv[2]
def sub(path,old,new,count=1):
    p=os.path.join(root,path); s=open(p).read()
    assert old in s, (path, old[:40])
    open(p,'w').write(s.replace(old,new,count))
if which=='prec-swap':
    sub('ast/ast.go','\ttoken.OR:         OR,\n\ttoken.AND:        AND,','\ttoken.AND:        AND,\n\ttoken.OR:         OR,')
elif which=='cmp-threshold':
    sub('eval/eval.go','object.Cmp(left, right) == 1)','object.Cmp(left, right) > 0)')
    sub('eval/eval.go','object.Cmp(left, right) == -1)','object.Cmp(left, right) < 0)')
elif which=='defer-closure':
    sub('eval/eval.go','defer s.env.ReleaseRegister(register)','defer func() { s.env.ReleaseRegister(register) }()')
elif which=='autosave-tmpname':
    sub('repl/repl.go','err = os.Rename(f.Name(), AutoSaveFile)','tmpName := f.Name()\n\terr = os.Rename(tmpName, AutoSaveFile)')
elif which=='sanitize-classic-loop':
    sub('extensions/extension.go','''	for _, r := range []byte(f) {
		if !lexer.IsAlphaNum(r) {
			return "", fmt.Errorf("invalid character in filename %q: %c", file, r)
		}
	}''','''	for i := 0; i < len(f); i++ {
		if !lexer.IsAlphaNum(f[i]) {
			return "", fmt.Errorf("invalid character in filename %q: %c", file, f[i])
		}
	}''')
elif which=='lexer-rename-var':
    sub('lexer/lexer.go','errPos','exponentStart',10)
elif which=='reset-order':
    sub('eval/eval_api.go','\ts.env = s.rootEnv\n\ts.depth = 0\n\ts.PipeVal = nil','\ts.PipeVal = nil\n\ts.depth = 0\n\ts.env = s.rootEnv')
elif which=='ifelse-switch':
    sub('eval/eval.go','''	if right.Type() != object.ARRAY {''','''	if rt := right.Type(); rt != object.ARRAY {''') if False else None
elif which=='cachegate-reorder':
    # test error first, then misses: same semantics
    sub('eval/eval.go','''	if after != before {
		log.Debugf("Cache miss for %s %v, %d get misses", function.CacheKey, args, after-before)
		// Propagate the can't cache
		if cantCache {
			s.env.TriggerNoCache()
		}
		return res
	}
	// Don't cache errors, as it could be due to binding for instance.
	if res.Type() == object.ERROR {
		log.Debugf("Cache miss for %s %v, not caching error result", function.CacheKey, args)
		return res
	}''','''	changed := after != before
	if changed {
		log.Debugf("Cache miss for %s %v, %d get misses", function.CacheKey, args, after-before)
		// Propagate the can't cache
		if cantCache {
			s.env.TriggerNoCache()
		}
		return res
	}
	// Don't cache errors, as it could be due to binding for instance.
	if rt := res.Type(); rt == object.ERROR {
		log.Debugf("Cache miss for %s %v, not caching error result", function.CacheKey, args)
		return res
	}''')
elif which=='trie-if-chain':
    sub('trie/trie.go','''			if char < t.min {
				t.min = char
			}
			if char > t.max {
				t.max = char
			}''','''			t.min = min(t.min, char)
			t.max = max(t.max, char)''')
