import sys,re,os
root=sys.argv[1]; which=sys.argv[2]
def sub(path,old,new,count=1):
    p=os.path.join(root,path); s=open(p).read()
    assert old in s, (path, old[:40])
    open(p,'w').write(s.replace(old,new,count))
if which=='prec-swap':
    sub('ast/ast.go','\ttoken.OR:         OR,\n\ttoken.AND:        AND,','\ttoken.AND:        AND,\n\ttoken.OR:         OR,')
elif which=='cmp-threshold':
    sub('eval/eval.go','object.Cmp(left, right) == 1)','object.Cmp(left, right) > 0)')
    sub('eval/eval.go','object.Cmp(left, right) == -1)','object.Cmp(left, right) < 0)')
elif which=='defer-closure':
    sub('eval/eval.go','defer s.env.ReleaseRegister(register)','defer func() { s.env.ReleaseRegister(register) }()')
elif which=='autosave-tmpname':
    sub('repl/repl.go','err = os.Rename(f.Name(), AutoSaveFile)','tmpName := f.Name()\n\terr = os.Rename(tmpName, AutoSaveFile)')
elif which=='sanitize-classic-loop':
    sub('extensions/extension.go','''	for _, r := range []byte(f) {
		if !lexer.IsAlphaNum(r) {
			return "", fmt.Errorf("invalid character in filename %q: %c", file, r)
		}
	}''','''	for i := 0; i < len(f); i++ {
		if !lexer.IsAlphaNum(f[i]) {
			return "", fmt.Errorf("invalid character in filename %q: %c", file, f[i])
		}
	}''')
elif which=='lexer-rename-var':
    sub('lexer/lexer.go','errPos','exponentStart',10)
elif which=='reset-order':
    sub('eval/eval_api.go','\ts.env = s.rootEnv\n\ts.depth = 0\n\ts.PipeVal = nil','\ts.PipeVal = nil\n\ts.depth = 0\n\ts.env = s.rootEnv')
elif which=='ifelse-switch':
    sub('eval/eval.go','''	if right.Type() != object.ARRAY {''','''	if rt := right.Type(); rt != object.ARRAY {''') if False else None
# ('cachegate-reorder' was retired: fix D61/D63 rewrote the code it reordered)
elif which=='trie-if-chain':
    sub('trie/trie.go','''			if char < t.min {
				t.min = char
			}
			if char > t.max {
				t.max = char
			}''','''			t.min = min(t.min, char)
			t.max = max(t.max, char)''')

elif which=='flush-helper':
    sub('eval/eval.go','''	var output []byte
	if buf.Len() > 0 {
		output = buf.Bytes()
		_, err := s.Out.Write(output)
		if err != nil {
			log.Warnf("output: %v", err)
		}
	}
''','''	output := s.flushCaptured(&buf)
''')
    sub('eval/eval.go','func (s *State) applyFunction(','''// flushCaptured writes what a call printed to the (restored) output and returns it for the cache.
func (s *State) flushCaptured(buf *bytes.Buffer) []byte {
	if buf.Len() == 0 {
		return nil
	}
	output := buf.Bytes()
	if _, err := s.Out.Write(output); err != nil {
		log.Warnf("output: %v", err)
	}
	return output
}

func (s *State) applyFunction(''')
elif which=='index-cond-rewrite':
    sub('eval/eval.go','if idx < 0 || idx > maxV {','if idx < 0 || idx >= int64(object.Len(array)) {')
elif which=='reset-helper':
    sub('eval/eval_api.go','''	s.env = s.rootEnv
	s.depth = 0
	s.PipeVal = nil
}''','''	s.resetScope()
	s.depth = 0
	s.PipeVal = nil
}

func (s *State) resetScope() {
	s.env = s.rootEnv
}''')
elif which=='cmpkeys-var':
    sub('object/object.go','func CompareKeys(a, b keyValuePair) int {\n\treturn Cmp(a.Key, b.Key)','func CompareKeys(a, b keyValuePair) int {\n\tres := Cmp(a.Key, b.Key)\n\treturn res')
elif which=='modify-fieldwise':
    sub('ast/modify.go','newNode := &ArrayLiteral{Base: node.Base, Elements: make([]Node, len(node.Elements))}','newNode := &ArrayLiteral{}\n\t\tnewNode.Base = node.Base\n\t\tnewNode.Elements = make([]Node, len(node.Elements))')
elif which=='autoload-reader':
    sub('repl/repl.go','''	scanner := bufio.NewScanner(f)
	scanner.Buffer(nil, math.MaxInt) // a saved value or function can be longer than the default 64k line limit.
	count := 0
	errorCount := 0
	var errs []error
	for scanner.Scan() {
		line := scanner.Text()
''','''	reader := bufio.NewReader(f)
	count := 0
	errorCount := 0
	var errs []error
	for {
		line, rerr := reader.ReadString('\\n')
		line = strings.TrimSuffix(line, "\\n")
		if rerr != nil && line == "" {
			if !errors.Is(rerr, io.EOF) {
				errs = append(errs, rerr)
			}
			break
		}
''')
    sub('repl/repl.go','''	if err = scanner.Err(); err != nil {
		errorCount++
		errs = append(errs, err)
		log.Errf("Error reading autoload file %s: %v", AutoSaveFile, err)
	}
''','''	_ = math.MaxInt
''')
elif which=='freememory-order':
    sub('object/memory.go','''	var memStats runtime.MemStats
	runtime.ReadMemStats(&memStats)
	currentAlloc := memStats.HeapAlloc
	// retrieve the current limit.
	gomemlimit := debug.SetMemoryLimit(-1)
''','''	// retrieve the current limit.
	gomemlimit := debug.SetMemoryLimit(-1)
	var memStats runtime.MemStats
	runtime.ReadMemStats(&memStats)
	currentAlloc := memStats.HeapAlloc
''')
elif which=='definemacros-while':
    sub('eval/macro_expension.go','for i := 0; i < len(program.Statements); /* not always incrementing */ {','i := 0\n\tfor i < len(program.Statements) {')
elif which=='smallmap-get-classic':
    sub('object/object.go','\tfor i := range m.len {\n\t\tc := Cmp(m.smallKV[i].Key, key)','\tfor i := 0; i < m.len; i++ {\n\t\tc := Cmp(m.smallKV[i].Key, key)')
elif which=='allbytes-minmax':
    sub('trie/trie.go','\tif t.leaf {\n\t\treturn longest, res\n\t}','\tif t.leaf || t.min > t.max {\n\t\treturn longest, res\n\t}')
elif which=='release-named':
    sub('eval/eval.go','defer s.env.ReleaseRegister(register)','env := s.env\n\t\tdefer env.ReleaseRegister(register)')
elif which=='append-indexloop':
    sub('object/object.go','''	res.kv = append(res.kv, m.kv...)
	for _, kv := range right.mapElements() {
		res.Set(kv.Key, kv.Value)
	}''','''	res.kv = append(res.kv, m.kv...)
	elems := right.mapElements()
	for i := 0; i < len(elems); i++ {
		res.Set(elems[i].Key, elems[i].Value)
	}''')
elif which=='smallmap-rest-var':
    sub('object/object.go','''	res := SmallMap{len: m.len - 1}
	copy(res.smallKV[:m.len-1], m.smallKV[1:m.len])''','''	n := m.len - 1
	res := SmallMap{len: n}
	copy(res.smallKV[:n], m.smallKV[1:m.len])''')
elif which=='smallmap-delete-copy':
    sub('object/object.go','''	for i := where; i < m.len-1; i++ {
		m.smallKV[i] = m.smallKV[i+1]
	}
	m.len--''','''	copy(m.smallKV[where:m.len-1], m.smallKV[where+1:m.len])
	m.len--''')
elif which=='ident-switch':
    sub('eval/eval.go','''	if nv.Type() != token.IDENT {
		return s.NewError("can't prefix increment/decrement " + nv.DebugString())
	}''','''	switch nv.Type() {
	case token.IDENT:
	default:
		return s.NewError("can't prefix increment/decrement " + nv.DebugString())
	}''')
elif which=='ident-var':
    sub('eval/eval.go','''	if idxE.Left.Value().Type() != token.IDENT {
		return s.NewError("delete index on non identifier: " + idxE.Left.Value().DebugString())
	}
	id := idxE.Left.Value().Literal()''','''	left := idxE.Left.Value()
	if lt := left.Type(); lt != token.IDENT {
		return s.NewError("delete index on non identifier: " + left.DebugString())
	}
	id := left.Literal()''')
elif which=='set-precheck':
    sub('object/object.go','''	m.len++
	if m.len > MaxSmallMap {
		// We need to switch to a big map.
		res := &BigMap{kv: make([]keyValuePair, 0, m.len)}
		res.kv = append(res.kv, m.smallKV[:i]...)
		res.kv = append(res.kv, keyValuePair{Key: key, Value: value})
		res.kv = append(res.kv, m.smallKV[i:m.len-1]...)
		return res
	}''','''	if m.len >= MaxSmallMap {
		// We need to switch to a big map.
		res := &BigMap{kv: make([]keyValuePair, 0, m.len+1)}
		res.kv = append(res.kv, m.smallKV[:i]...)
		res.kv = append(res.kv, keyValuePair{Key: key, Value: value})
		res.kv = append(res.kv, m.smallKV[i:m.len]...)
		return res
	}
	m.len++''')
elif which=='resume-helper':
    sub('extensions/shell.go','''			defer func() { s.Context, s.Cancel = s.Term.Resume(context.Background()) }()''','''			defer resumeTerm(s)''')
    sub('extensions/shell.go','''func createShellFunctions() {''','''func resumeTerm(s *eval.State) {
	s.Context, s.Cancel = s.Term.Resume(context.Background())
}

func createShellFunctions() {''')
elif which=='resume-localterm':
    sub('extensions/io.go','''				defer func() { s.Context, s.Cancel = s.Term.Resume(context.Background()) }()''','''				term := s.Term
				defer func() { s.Context, s.Cancel = term.Resume(context.Background()) }()''')
elif which=='readhex-inline':
    sub('lexer/lexer.go','''		if !isHexChar(l.peekChar()) {
			break
		}
		v = v<<4 | hexCharToHex(l.readChar())''','''		c := l.peekChar()
		if !(('0' <= c && c <= '9') || ('a' <= c && c <= 'f') || ('A' <= c && c <= 'F')) {
			break
		}
		v = v<<4 | hexCharToHex(l.readChar())''')
elif which=='deref-helper':
    sub('eval/eval.go','''	condition := object.Value(s.evalInternal(ie.Condition)) // deref a variable of an outer scope.''','''	condition := s.evalValue(ie.Condition)''')
    sub('eval/eval.go','''func (s *State) evalIfExpression(ie *ast.IfExpression) object.Object {''','''func (s *State) evalValue(n ast.Node) object.Object {
	return object.Value(s.evalInternal(n))
}

func (s *State) evalIfExpression(ie *ast.IfExpression) object.Object {''')
elif which=='deref-assert':
    sub('eval/eval.go','''	obj = object.Value(obj) // deref.
	// TODO: handle arrays too?''','''	if r, isRef := obj.(object.Reference); isRef {
		obj = r.ObjValue()
	}
	// TODO: handle arrays too?''')
elif which=='loopctl-ifchain':
    sub('eval/eval.go','''				r := nextEval.(object.ReturnValue)
				switch r.ControlType {
				case token.BREAK:
					return lastEval
				case token.CONTINUE:
					continue
				default: // return: up to the function.
					return r
				}''','''				r := nextEval.(object.ReturnValue)
				if r.ControlType == token.CONTINUE {
					continue
				}
				if r.ControlType == token.BREAK {
					return lastEval
				}
				return r // return: up to the function.''')
elif which=='numset-helper':
    sub('object/state.go','''		if ref.RefEnv.depth == 0 {
			ref.RefEnv.numSet++ // a global changed, like in update().
		}''','''		ref.RefEnv.changed()''')
    sub('object/state.go','''func (e *Environment) create(name string, val Object) Object {''','''func (e *Environment) changed() {
	if e.depth == 0 {
		e.numSet++
	}
}

func (e *Environment) create(name string, val Object) Object {''')
elif which=='getmiss-pluseq':
    sub('object/state.go','''		e.getMiss++ // a write outside of this frame is a side effect, whatever the variable held: not cacheable.''','''		e.getMiss += 1''')
elif which=='verdicts-combined':
    sub('eval/eval_api.go','''	if len(p.Errors()) != 0 {
		return object.NULL, fmt.Errorf("parsing error: %v", p.Errors())
	}
	if p.ContinuationNeeded() { // e.g. unterminated block comment: the tree has missing nodes.
		return object.NULL, errors.New("parsing error: incomplete input")
	}''','''	if errs := p.Errors(); len(errs) > 0 || p.ContinuationNeeded() {
		if len(errs) == 0 {
			return object.NULL, errors.New("parsing error: incomplete input")
		}
		return object.NULL, fmt.Errorf("parsing error: %v", errs)
	}''')
elif which=='rightprec-assign':
    sub('ast/ast.go','''		if rightOperandBindsTighter(i.Type(), i.Right) {
			out.ExpressionPrecedence++
		}''','''		if rightOperandBindsTighter(i.Type(), i.Right) {
			out.ExpressionPrecedence += 1
		}''')
elif which=='catch-order':
    sub('eval/eval.go','''			s.env.TriggerNoCache()
			val = object.String{Value: val.(object.Error).Value}''','''			msg := val.(object.Error).Value
			s.env.TriggerNoCache()
			val = object.String{Value: msg}''')
elif which=='openstring-helper':
    sub('parser/parser.go','''	if p.l.OpenString() { // also at the start of a statement, where the end of line is not a surprise.
		p.continuationNeeded = true
	}''','''	if open := p.l.OpenString(); open {
		p.continuationNeeded = open
	}''')
elif which=='typeequal-switch':
    sub('object/object.go','''	return a == b || (IsIntType(a) && IsIntType(b))''','''	if a == b {
		return true
	}
	return IsIntType(a) && IsIntType(b)''')
elif which=='record-early':
    sub('object/state.go','''	if t == FUNC {
		ids.Insert(key + "(")
	} else {
		ids.Insert(key + " ")
	}
	ids.Insert(key)
}''','''	ids.Insert(key)
	suffix := " "
	if t == FUNC {
		suffix = "("
	}
	ids.Insert(key + suffix)
}''')
elif which=='saveglobals-helper':
    sub('object/state.go','''				_, err := fmt.Fprintf(to, "%s\\n", f.Inspect())
				if err != nil {
					return n, err
				}''','''				if err := writeLine(to, f.Inspect()); err != nil {
					return n, err
				}''')
    sub('object/state.go','''func (e *Environment) SaveGlobals(to io.Writer, maxValueLen int) (int, error) {''','''func writeLine(to io.Writer, line string) error {
	_, err := fmt.Fprintf(to, "%s\\n", line)
	return err
}

func (e *Environment) SaveGlobals(to io.Writer, maxValueLen int) (int, error) {''')
elif which=='elseif-len':
    sub('ast/ast.go','''	if len(ie.Alternative.Statements) == 1 && ie.Alternative.Statements[0].Value().Type() == token.IF {''','''	alt := ie.Alternative.Statements
	if len(alt) == 1 && alt[0].Value().Type() == token.IF {''')
    sub('ast/ast.go','''		ie.Alternative.Statements[0].PrettyPrint(out)
		return''','''		alt[0].PrettyPrint(out)
		return''')
elif which=='inttest-helper':
    sub('eval/eval.go','''	case object.INTEGER:
		value := right.(object.Integer).Value
		return object.Integer{Value: -value}
	case object.REGISTER:
		value := right.(*object.Register).Int64()
		return object.Integer{Value: -value}''','''	case object.INTEGER, object.REGISTER:
		value, _ := Int64Value(right)
		return object.Integer{Value: -value}''')
