#!/bin/bash
# parallel variant of tools/seedall.sh: $1 = chunk index, $2 = number of chunks (see tools/seedpar_all.sh)
cd /verif
i=0
for d in seeded/*/; do
  i=$((i+1)); [ $((i % $2)) -ne $1 ] && continue
  id=$(basename $d); prop=${id%%-*}
  demo="bash seed/demo.sh"; pkg=""
  if [ ! -f $d/demo.sh ]; then
    case $id in
      C20-a) demo="go test -vet=off -count=1 -run TestSeedC20 ./trie/"; pkg=trie;;
      C07-b) demo="go test -vet=off -count=1 -run TestSeedC07b ./repl/"; pkg=repl;;
    esac
  fi
  out=$(DEMO_PKG=$pkg MUT_LINES=400 tools/seedcheck.sh $d $prop "$demo" 2>&1)
  seedline=$(echo "$out" | grep '^SEED:' | head -1)
  viol=$(echo "$out" | grep -c '^VIOLATION')
  rules=$(echo "$out" | grep '^violation:' | sed -E 's/^violation: ([A-Z0-9.]+) \| ([^|]+)\|.*/\1@\2/' | sort -u | tr '\n' ' ')
  ex=$(echo "$out" | grep '^check exit' | tail -1)
  echo "$id | $seedline | violations=$viol | $ex | $rules"
done
