#!/bin/bash
# usage: tools/mutant.sh <prop|all> <patch.diff | -e 'sed-expr' file>...
# Applies a change to a scratch copy of /repo (never to /repo), checks it compiles, runs the check.
set -u
PROP="$1"; shift
S=$(mktemp -d /tmp/vmut.XXXXXX)
trap 'rm -rf "$S"' EXIT
rsync -a --exclude .git /repo/ "$S/repo/"
mkdir -p "$S/out"
if [ "$1" = "-e" ]; then
  sed -i -E "$2" "$S/repo/$3" || exit 3
  if diff -q "/repo/$3" "$S/repo/$3" >/dev/null; then echo "MUTANT: sed changed nothing"; exit 3; fi
  diff -u "/repo/$3" "$S/repo/$3" | head -30
else
  (cd "$S/repo" && patch -p1 -s < "$1") || exit 3
fi
. /verif/env.sh
(cd "$S/repo" && go build ./... ) || { echo "MUTANT: does not compile"; exit 3; }
if [ "${MUT_TEST:-0}" = 1 ]; then (cd "$S/repo" && go test -vet=off -count=1 ./... 2>&1 | tail -12); fi
VERIF_REPO="$S/repo" VERIF_OUT="$S/out" /verif/run.sh "$PROP" "${MUT_TIER:-quick}" | grep -v '^    path' | tail -${MUT_LINES:-8}
echo "exit=${PIPESTATUS[0]}"
