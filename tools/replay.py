#!/usr/bin/env python3
"""Re-runs the single rule named in a replay file against /repo's current tree."""
import json, subprocess, sys
r = json.load(open(sys.argv[1]))
print(json.dumps(r, indent=1))
sys.exit(subprocess.call(["/verif/run.sh", r["property"], "quick", "--only", r["rule"]]))
