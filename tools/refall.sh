#!/bin/bash
# usage: tools/refall.sh  -- runs every check on each stored behaviour-preserving refactoring (refactorings/*/r*.diff, made by
# independent sub-agents) and on the hand-written ones of tools/refactors.py: everything must stay silent.
cd /verif
ls /verif/refactorings/*/r*.diff | xargs -P "${JOBS:-5}" -I{} sh -c 'timeout 1500 /verif/tools/refpatch.sh {} > /tmp/rp_$(echo {} | tr "/" "_").log 2>&1'
cat /tmp/rp__verif_refactorings_*.log | grep -v "exit=0"
echo "silent: $(grep -l 'exit=0' /tmp/rp__verif_refactorings_*.log | wc -l) of $(ls /verif/refactorings/*/r*.diff | wc -l)"
