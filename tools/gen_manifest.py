#!/usr/bin/env python3
"""Generates /verif/MANIFEST.json from the table in tools/checks.json (one entry per claimed property)."""
import json, os, subprocess
here = os.path.dirname(os.path.abspath(__file__))
root = os.path.dirname(here)
checks = json.load(open(os.path.join(here, "checks.json")))
props = [json.loads(l) for l in open(os.path.join(root, "properties.jsonl")) if l.strip()]
ids = [p["id"] for p in props]
m = {
    "version": 1,
    "setup_cmd": "./setup.sh",
    "hooks": {
        "guard": "verif",
        "enable": "none needed: static analysis reads /repo's source as it is; no instrumentation is compiled in",
        "baseline_off_cmd": "cd /repo && go test -vet=off -count=1 ./...",
        "source_commits": [],
        "add_only": True,
    },
    "engines": [{
        "name": "grolcheck",
        "path": "/verif/checker",
        "serves_properties": sorted(checks["claimed"].keys()),
        "kind_free_text": "repository-specific static analyser (go/packages + go/types + go/ssa + CHA call graph, x/tools v0.29.0); decides rule instances on /repo's current source, nothing is executed",
    }],
    "checks": [],
    "not_applicable": [],
    "notes": checks.get("notes", ""),
}
for pid in ids:
    if pid in checks["claimed"]:
        c = checks["claimed"][pid]
        m["checks"].append({
            "property_id": pid,
            "quick_cmd": f"./run.sh {pid} quick",
            "thorough_cmd": f"./run.sh {pid} thorough",
            "evidence_file": f"/verif/evidence/{pid}.json",
            "replay_cmd_template": "python3 /verif/tools/replay.py {path}",
            "engine": "grolcheck",
            "level_claimed": {"category": "other", "text": c["text"], "design_ref": f"DESIGN.md section 5, {pid}"},
            "level_note": c["note"],
            "technique": c["technique"],
        })
    else:
        m["not_applicable"].append({"property_id": pid, "reason": checks["not_applicable"].get(pid, "not claimed at this commit: static rules for this property are still being built (DESIGN.md section 5)")})
json.dump(m, open(os.path.join(root, "MANIFEST.json"), "w"), indent=1)
print("claimed:", len(m["checks"]), "not applicable:", len(m["not_applicable"]))
