#!/usr/bin/env python3
"""usage: addfixed.py <property> <commit-subject-substring> <what failed>  -- appends a 'fixed:' line to known_findings.json"""
import json, subprocess, sys
prop, sub, what = sys.argv[1:4]
log = subprocess.check_output(['git', '-C', '/repo', 'log', '--format=%h %s']).decode().splitlines()
hs = [l.split()[0] for l in log if sub in l]
if len(hs) != 1:
    raise SystemExit(f"{len(hs)} commits match {sub!r}")
p = '/verif/known_findings.json'
d = json.load(open(p))
line = f"fixed: property={prop} {hs[0]} {what}"
if not any(l.startswith(f"fixed: property={prop} {hs[0]} ") for l in d['fixed']):
    d['fixed'].append(line)
json.dump(d, open(p, 'w'), indent=1)
print(line)
