#!/bin/bash
# usage: tools/refpatch.sh <patch.diff>  -- applies a (claimed behaviour-preserving) patch to a scratch copy of /repo,
# checks build + tests, and runs every check: all must stay silent (false-alarm resistance).
set -u
S=$(mktemp -d /tmp/vrp.XXXXXX); trap 'rm -rf "$S"' EXIT
rsync -a --exclude .git /repo/ "$S/repo/"; mkdir -p "$S/out"
(cd "$S/repo" && patch -p1 -s --fuzz=3 < "$1") || { echo "REFPATCH: cannot apply $1"; exit 3; }
. /verif/env.sh
(cd "$S/repo" && go build ./... && go test -vet=off -count=1 ./... > "$S/test.log" 2>&1) || { grep -v '^ok\|no test files' "$S/test.log" | head -10; echo "REFPATCH: $1 does not build/pass tests"; exit 3; }
VERIF_REPO="$S/repo" VERIF_OUT="$S/out" /verif/run.sh all quick | grep -v '^KNOWN\|^    path' | grep 'violation:\|UNDECIDED' | cut -c1-300
echo "refpatch $1: exit=${PIPESTATUS[0]}"
