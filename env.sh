# Sourced by run.sh / setup.sh: offline Go environment for the checker and for loading /repo.
TC=/root/go/pkg/mod/golang.org/toolchain@v0.0.1-go1.23.8.linux-amd64
if [ -x "$TC/bin/go" ]; then
  export PATH="$TC/bin:$PATH"
  export GOROOT="$TC"
fi
export GOFLAGS=-mod=mod GOPROXY=off GOSUMDB=off GOTOOLCHAIN=local GOWORK=off
unset GOROOT_FINAL
